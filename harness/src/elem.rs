//! Instrumented float element types: same arithmetic as f32/f64, different `TypeId`, plus an observer
//! that sees every arithmetic operation (no-op for W32/W64, counters for Cnt, a scheduling point for Yld).
use num_traits::{FromPrimitive, Num, One, Signed, Zero};
use std::cell::Cell;
use std::ops::{Add, Div, Mul, Neg, Rem, Sub};

pub const OP_ADD: u8 = 0;
pub const OP_SUB: u8 = 1;
pub const OP_MUL: u8 = 2;
pub const OP_DIV: u8 = 3;
pub const OP_NEG: u8 = 4;
pub const OP_OTHER: u8 = 5; // abs, signum, comparisons, rem, is_zero: not ring operations

macro_rules! float_wrapper {
    ($name:ident, $inner:ty, $obs:path) => {
        #[derive(Copy, Clone, Debug, Default)]
        #[repr(transparent)]
        pub struct $name(pub $inner);
        impl PartialEq for $name {
            #[inline]
            fn eq(&self, o: &Self) -> bool {
                $obs(OP_OTHER);
                self.0 == o.0
            }
        }
        impl PartialOrd for $name {
            #[inline]
            fn partial_cmp(&self, o: &Self) -> Option<std::cmp::Ordering> {
                $obs(OP_OTHER);
                self.0.partial_cmp(&o.0)
            }
        }
        impl Add for $name {
            type Output = Self;
            #[inline]
            fn add(self, o: Self) -> Self {
                $obs(OP_ADD);
                $name(self.0 + o.0)
            }
        }
        impl Sub for $name {
            type Output = Self;
            #[inline]
            fn sub(self, o: Self) -> Self {
                $obs(OP_SUB);
                $name(self.0 - o.0)
            }
        }
        impl Mul for $name {
            type Output = Self;
            #[inline]
            fn mul(self, o: Self) -> Self {
                $obs(OP_MUL);
                $name(self.0 * o.0)
            }
        }
        impl Div for $name {
            type Output = Self;
            #[inline]
            fn div(self, o: Self) -> Self {
                $obs(OP_DIV);
                $name(self.0 / o.0)
            }
        }
        impl Rem for $name {
            type Output = Self;
            #[inline]
            fn rem(self, o: Self) -> Self {
                $obs(OP_OTHER);
                $name(self.0 % o.0)
            }
        }
        impl Neg for $name {
            type Output = Self;
            #[inline]
            fn neg(self) -> Self {
                $obs(OP_NEG);
                $name(-self.0)
            }
        }
        impl Zero for $name {
            #[inline]
            fn zero() -> Self {
                $name(0.0)
            }
            #[inline]
            fn is_zero(&self) -> bool {
                $obs(OP_OTHER);
                self.0 == 0.0
            }
        }
        impl One for $name {
            #[inline]
            fn one() -> Self {
                $name(1.0)
            }
        }
        impl Num for $name {
            type FromStrRadixErr = ();
            fn from_str_radix(_s: &str, _r: u32) -> Result<Self, ()> {
                Err(())
            }
        }
        impl Signed for $name {
            fn abs(&self) -> Self {
                $obs(OP_OTHER);
                $name(self.0.abs())
            }
            fn abs_sub(&self, o: &Self) -> Self {
                $obs(OP_OTHER);
                $name((self.0 - o.0).max(0.0))
            }
            fn signum(&self) -> Self {
                $obs(OP_OTHER);
                $name(self.0.signum())
            }
            fn is_positive(&self) -> bool {
                $obs(OP_OTHER);
                self.0 > 0.0
            }
            fn is_negative(&self) -> bool {
                $obs(OP_OTHER);
                self.0 < 0.0
            }
        }
        impl FromPrimitive for $name {
            fn from_i64(n: i64) -> Option<Self> {
                <$inner as FromPrimitive>::from_i64(n).map($name)
            }
            fn from_u64(n: u64) -> Option<Self> {
                <$inner as FromPrimitive>::from_u64(n).map($name)
            }
            fn from_f64(n: f64) -> Option<Self> {
                <$inner as FromPrimitive>::from_f64(n).map($name)
            }
            fn from_f32(n: f32) -> Option<Self> {
                <$inner as FromPrimitive>::from_f32(n).map($name)
            }
            fn from_usize(n: usize) -> Option<Self> {
                <$inner as FromPrimitive>::from_usize(n).map($name)
            }
            fn from_isize(n: isize) -> Option<Self> {
                <$inner as FromPrimitive>::from_isize(n).map($name)
            }
            fn from_u32(n: u32) -> Option<Self> {
                <$inner as FromPrimitive>::from_u32(n).map($name)
            }
            fn from_i32(n: i32) -> Option<Self> {
                <$inner as FromPrimitive>::from_i32(n).map($name)
            }
        }
    };
}

#[inline(always)]
fn obs_none(_k: u8) {}

thread_local! {
    pub static CNT: Cell<[u64; 6]> = Cell::new([0; 6]);
}
#[inline]
fn obs_count(k: u8) {
    CNT.with(|c| {
        let mut v = c.get();
        v[k as usize] += 1;
        c.set(v);
    });
}
pub fn cnt_reset() {
    CNT.with(|c| c.set([0; 6]));
}
pub fn cnt_get() -> [u64; 6] {
    CNT.with(|c| c.get())
}

#[inline]
fn obs_yield(k: u8) {
    crate::sched::yield_point(100 + k as u32);
}

float_wrapper!(W32, f32, obs_none);
float_wrapper!(W64, f64, obs_none);
float_wrapper!(Cnt, f64, obs_count);
float_wrapper!(Yld, f64, obs_yield);
