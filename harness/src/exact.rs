//! Engine A, exact layer: the portable generic code executed over a prime field (see fp.rs) and compared,
//! with no tolerance, against a naive DFT in the same field.
use crate::core::{call, dir_name, Entry, C};
use crate::fp::{self, Field, Fp, TAG_POISON};
use crate::util::{mulmod, Rng};
use num_traits::Zero;
use rustfft::{Fft, FftDirection};
use std::panic::{catch_unwind, AssertUnwindSafe};
use std::sync::Arc;

pub type Builder<'a> = &'a dyn Fn() -> Arc<dyn Fft<Fp>>;

pub struct BuiltG<R> {
    pub obj: R,
    pub field: Field,
    /// flags raised while constructing (binding mismatch, unknown constants...)
    pub build_flags: u32,
    pub twiddle_lens: Vec<u64>,
}
pub struct Built {
    pub fft: Arc<dyn Fft<Fp>>,
    pub field: Field,
    pub build_flags: u32,
    pub twiddle_lens: Vec<u64>,
}

/// Two passes: collect twiddle lengths, pick the `which`-th suitable prime, build again in that field.
/// Outer Err(msg) = construction panicked (msg); inner Err = no suitable field (machinery note).
pub fn build_in_field_generic<R>(build: &dyn Fn() -> R, extra_lens: &[u64], which: usize) -> Result<Result<BuiltG<R>, String>, String> {
    fp::begin_collect();
    let r = catch_unwind(AssertUnwindSafe(|| build()));
    let mut lens = fp::end_collect();
    if let Err(e) = r {
        return Err(crate::core::panic_text(&e));
    }
    drop(r);
    lens.extend(extra_lens.iter().copied().filter(|&l| l > 0));
    lens.sort();
    lens.dedup();
    let field = match fp::make_field(&lens, which) {
        Ok(f) => f,
        Err(m) => return Ok(Err(m)),
    };
    fp::install(&field);
    let obj = match catch_unwind(AssertUnwindSafe(|| build())) {
        Ok(f) => f,
        Err(e) => return Err(crate::core::panic_text(&e)),
    };
    let build_flags = fp::take_flags();
    Ok(Ok(BuiltG { obj, field, build_flags, twiddle_lens: lens }))
}

pub fn build_in_field(build: Builder, n: usize, which: usize) -> Result<Result<Built, String>, String> {
    match build_in_field_generic(build, &[n as u64], which)? {
        Ok(b) => Ok(Ok(Built { fft: b.obj, field: b.field, build_flags: b.build_flags, twiddle_lens: b.twiddle_lens })),
        Err(m) => Ok(Err(m)),
    }
}

/// image of the DFT matrix entry W^(t) for the direction: (re, im)
pub struct Table {
    pub n: usize,
    pub p: u64,
    pub c: Vec<u64>,
    pub s: Vec<u64>,
}
impl Table {
    pub fn new(f: &Field, n: usize) -> Table {
        let mut c = Vec::with_capacity(n);
        let mut s = Vec::with_capacity(n);
        for t in 0..n {
            let (a, b) = f.cos_sin(t as u64, n as u64);
            c.push(a);
            s.push(b);
        }
        Table { n, p: f.p, c, s }
    }
    #[inline]
    pub fn w(&self, t: usize, dir: FftDirection) -> (u64, u64) {
        let s = self.s[t];
        match dir {
            FftDirection::Forward => (self.c[t], if s == 0 { 0 } else { self.p - s }),
            FftDirection::Inverse => (self.c[t], s),
        }
    }
    /// naive DFT of data given as (re, im) residues
    pub fn dft(&self, x: &[(u64, u64)], dir: FftDirection) -> Vec<(u64, u64)> {
        let n = self.n;
        let p = self.p;
        let mut out = Vec::with_capacity(n);
        for k in 0..n {
            let mut re = 0u64;
            let mut im = 0u64;
            let mut idx = 0usize;
            for &(a, b) in x {
                let (wr, wi) = self.w(idx, dir);
                // (a + ib)(wr + i wi) = (a wr - b wi) + i (a wi + b wr)
                re = (re + mulmod(a, wr, p) + p - mulmod(b, wi, p)) % p;
                im = (im + mulmod(a, wi, p) + mulmod(b, wr, p)) % p;
                idx += k;
                if idx >= n {
                    idx -= n;
                }
            }
            out.push((re, im));
        }
        out
    }
}

#[derive(Default, Debug)]
pub struct ExactStats {
    pub calls: u64,
    pub entries_compared: u64,
    pub flags: u32,
    /// first few mismatch descriptions
    pub mismatches: Vec<String>,
    pub poison_leaks: u64,
    pub panics: Vec<String>,
}
impl ExactStats {
    pub fn note(&mut self, s: String) {
        if self.mismatches.len() < 5 {
            self.mismatches.push(s);
        }
    }
}

pub fn poison_vec(len: usize, salt: u64) -> Vec<C<Fp>> {
    (0..len).map(|i| C::new(Fp::poison(1_000_003 + salt + 2 * i as u64), Fp::poison(7_000_001 + salt + 3 * i as u64))).collect()
}

/// Run `fft` via `entry` on k chunks (each a data vector of residues), scratch/output poison-filled at exactly the
/// advertised length (+ `scratch_extra`), and compare every chunk with `expect`.
pub fn run_and_compare(
    fft: &dyn Fft<Fp>,
    entry: Entry,
    chunks: &[Vec<(u64, u64)>],
    expect: &[Vec<(u64, u64)>],
    scratch_extra: usize,
    what: &str,
    st: &mut ExactStats,
) {
    let n = fft.len();
    let mut data: Vec<C<Fp>> = Vec::with_capacity(n * chunks.len());
    for ch in chunks {
        for &(a, b) in ch {
            data.push(C::new(Fp::data(a), Fp::data(b)));
        }
    }
    let out_init = if entry.has_output() { poison_vec(data.len(), 11) } else { Vec::new() };
    let scr = match entry {
        Entry::Process => Vec::new(),
        _ => poison_vec(entry.scratch_len(fft) + scratch_extra, 77),
    };
    fp::take_flags();
    let co = call(fft, entry, &data, &out_init, &scr);
    st.calls += 1;
    st.flags |= fp::take_flags();
    let out = match co.out {
        Some(o) => o,
        None => {
            if st.panics.len() < 5 {
                st.panics.push(format!("{} entry={}: {}", what, entry.name(), co.panic_msg.unwrap_or_default()));
            }
            return;
        }
    };
    for (ci, ex) in expect.iter().enumerate() {
        for k in 0..n {
            let o = out[ci * n + k];
            st.entries_compared += 1;
            if o.re.tag == TAG_POISON || o.im.tag == TAG_POISON {
                st.poison_leaks += 1;
                let raw = st.flags & crate::fp::FLAG_RAW_BYTES != 0;
                st.note(format!(
                    "{} entry={} chunk={} k={}: {}",
                    what,
                    entry.name(),
                    ci,
                    k,
                    if raw { "a value that no operation of the element type produced (all-zero bytes: memset / mem::zeroed / transmute) was used as an element and reached the result; the type's zero is not the all-zero bit pattern" } else { "stale scratch/output content reached the result" }
                ));
            } else if (o.re.v, o.im.v) != ex[k] {
                st.note(format!("{} entry={} chunk={} k={}: got ({},{}) expected ({},{}) in F_p", what, entry.name(), ci, k, o.re.v, o.im.v, ex[k].0, ex[k].1));
            }
        }
    }
    if entry == Entry::Immut {
        for (i, c) in co.input_after.iter().enumerate() {
            let (a, b) = chunks[i / n.max(1)][i % n.max(1)];
            if c.re.v != a || c.im.v != b {
                st.note(format!("{} immut entry modified its input at {}", what, i));
                break;
            }
        }
    }
}

pub fn impulse_vec(n: usize, j: usize, imag: bool) -> Vec<(u64, u64)> {
    let mut v = vec![(0u64, 0u64); n];
    v[j] = if imag { (0, 1) } else { (1, 0) };
    v
}
pub fn impulse_expect(t: &Table, j: usize, imag: bool, dir: FftDirection) -> Vec<(u64, u64)> {
    let n = t.n;
    let p = t.p;
    let mut v = Vec::with_capacity(n);
    let mut idx = 0usize;
    for _ in 0..n {
        let (re, im) = t.w(idx, dir);
        v.push(if imag { (if im == 0 { 0 } else { p - im }, re) } else { (re, im) });
        idx += j;
        if idx >= n {
            idx -= n;
        }
    }
    v
}

/// The complete exact check of one transform: zero -> zero, the 2n real-basis impulses (or the given positions)
/// through the given entry points, plus `dense` random vectors against the O(n^2) field DFT.
pub fn check_transform(fft: &dyn Fft<Fp>, field: &Field, dir: FftDirection, entries: &[Entry], positions: &[usize], dense: usize, seed: u64, what: &str, st: &mut ExactStats) {
    let n = fft.len();
    if n == 0 {
        for &e in entries {
            run_and_compare(fft, e, &[], &[], 0, what, st);
        }
        return;
    }
    let t = Table::new(field, n);
    let zero = vec![(0u64, 0u64); n];
    for &e in entries {
        run_and_compare(fft, e, &[zero.clone()], &[zero.clone()], 0, &format!("{} in=zero", what), st);
    }
    for &j in positions {
        for imag in [false, true] {
            let x = impulse_vec(n, j, imag);
            let ex = impulse_expect(&t, j, imag, dir);
            for &e in entries {
                run_and_compare(fft, e, &[x.clone()], &[ex.clone()], 0, &format!("{} in=impulse:{}:{}", what, if imag { "im" } else { "re" }, j), st);
            }
        }
    }
    let mut rng = Rng::new(seed ^ (n as u64) << 7 ^ if dir == FftDirection::Forward { 0 } else { 1 });
    for di in 0..dense {
        let x: Vec<(u64, u64)> = (0..n).map(|_| (rng.next() % field.p, rng.next() % field.p)).collect();
        let ex = t.dft(&x, dir);
        for &e in entries {
            run_and_compare(fft, e, &[x.clone()], &[ex.clone()], 0, &format!("{} in=dense:{}", what, di), st);
        }
    }
}

pub fn describe(dir: FftDirection, n: usize) -> String {
    format!("n={} dir={}", n, dir_name(dir))
}

#[allow(dead_code)]
pub fn zero_c() -> C<Fp> {
    C::<Fp>::zero()
}
