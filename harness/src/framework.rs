//! Check context, coverage report, evidence writer, violation/replay/known-finding handling.
use crate::util::{fnv_str, Json};
use std::collections::BTreeMap;
use std::path::PathBuf;
use std::time::Instant;

#[derive(Copy, Clone, Debug, PartialEq, Eq)]
pub enum Tier {
    Quick,
    Thorough,
}
impl Tier {
    pub fn name(self) -> &'static str {
        match self {
            Tier::Quick => "quick",
            Tier::Thorough => "thorough",
        }
    }
    pub fn pick<T>(self, q: T, t: T) -> T {
        match self {
            Tier::Quick => q,
            Tier::Thorough => t,
        }
    }
}

pub fn root() -> PathBuf {
    PathBuf::from(std::env::var("VERIF_ROOT").unwrap_or_else(|_| "/verif".to_string()))
}

#[derive(Clone, Debug)]
pub struct Violation {
    /// canonical case key, `prop|k=v|k=v...`
    pub key: String,
    pub what: String,
    pub detail: Json,
}

pub struct Ctx {
    pub id: String,
    pub tier: Tier,
    pub seed: u64,
    pub start: Instant,
    pub replay: Option<Json>,
    /// build flavour this process was compiled as ("rel", "dbg", "feat-...")
    pub flavour: String,
}

#[derive(Default)]
pub struct Report {
    pub evaluations: u64,
    pub distinct_nontrivial: u64,
    pub states: u64,
    pub transitions: u64,
    pub rule: String,
    pub samples: Vec<Json>,
    pub violations: Vec<Violation>,
    pub assumptions: Vec<String>,
    pub notes: Vec<String>,
    pub exhaustive: bool,
    pub extra: BTreeMap<String, Json>,
    pub level: String,
    /// machinery problems (never verdicts). Non-empty => exit 2
    pub machinery_errors: Vec<String>,
}
impl Report {
    pub fn new() -> Report {
        Report { level: "model_checking".into(), ..Default::default() }
    }
    pub fn violate(&mut self, key: String, what: String, detail: Json) {
        // keep the list bounded; the count is kept separately
        let cnt = self.extra.entry("violations_total".into()).or_insert(Json::Int(0));
        if let Json::Int(c) = cnt {
            *c += 1;
        }
        if self.violations.len() < 40 && !self.violations.iter().any(|v| v.key == key) {
            self.violations.push(Violation { key, what, detail });
        }
    }
    pub fn sample(&mut self, j: Json) {
        if self.samples.len() < 8 {
            self.samples.push(j);
        }
    }
    pub fn set(&mut self, k: &str, v: impl Into<Json>) {
        self.extra.insert(k.to_string(), v.into());
    }
    pub fn merge(&mut self, o: Report) {
        self.evaluations += o.evaluations;
        self.distinct_nontrivial += o.distinct_nontrivial;
        self.states += o.states;
        self.transitions += o.transitions;
        for s in o.samples {
            self.sample(s);
        }
        let mut total = 0;
        if let Some(Json::Int(c)) = o.extra.get("violations_total") {
            total = *c;
        }
        for v in o.violations {
            if self.violations.len() < 40 && !self.violations.iter().any(|x| x.key == v.key) {
                self.violations.push(v);
            }
        }
        if total > 0 {
            let cnt = self.extra.entry("violations_total".into()).or_insert(Json::Int(0));
            if let Json::Int(c) = cnt {
                *c += total;
            }
        }
        for n in o.notes {
            if !self.notes.contains(&n) && self.notes.len() < 50 {
                self.notes.push(n);
            }
        }
        self.machinery_errors.extend(o.machinery_errors);
        for (k, v) in o.extra {
            if k == "violations_total" {
                continue;
            }
            // numeric extras are summed, "worst_*" objects keep the larger "ratio", others: first wins
            match (self.extra.get_mut(&k), v) {
                (Some(Json::Int(a)), Json::Int(b)) => *a += b,
                (Some(Json::Obj(a)), Json::Obj(b)) if k.starts_with("worst") => {
                    let ra = a.get("ratio").and_then(|x| if let Json::Num(f) = x { Some(*f) } else { None }).unwrap_or(0.0);
                    let rb = b.get("ratio").and_then(|x| if let Json::Num(f) = x { Some(*f) } else { None }).unwrap_or(0.0);
                    if rb > ra {
                        *a = b;
                    }
                }
                (Some(_), _) => {}
                (None, v) => {
                    self.extra.insert(k, v);
                }
            }
        }
    }
}

#[derive(Debug, Clone)]
pub struct Known {
    pub property: String,
    pub key_substr: String,
    pub what: String,
}
pub fn load_known() -> Vec<Known> {
    let p = root().join("known_findings.txt");
    let mut v = Vec::new();
    if let Ok(s) = std::fs::read_to_string(p) {
        for line in s.lines() {
            let line = line.trim();
            if let Some(rest) = line.strip_prefix("finding:") {
                let rest = rest.trim();
                let mut property = String::new();
                let mut key = String::new();
                let mut what = Vec::new();
                for tok in rest.split_whitespace() {
                    if let Some(p) = tok.strip_prefix("property=") {
                        property = p.to_string();
                    } else if let Some(k) = tok.strip_prefix("key=") {
                        key = k.to_string();
                    } else {
                        what.push(tok);
                    }
                }
                if !property.is_empty() && !key.is_empty() {
                    v.push(Known { property, key_substr: key, what: what.join(" ") });
                }
            }
        }
    }
    v
}

/// Writes the evidence file, prints KNOWN-FINDING / VIOLATION lines, returns the process exit code.
pub fn finalize(ctx: &Ctx, mut rep: Report) -> i32 {
    let wall = ctx.start.elapsed().as_secs_f64();
    let known = load_known();
    let mut unlisted: Vec<&Violation> = Vec::new();
    let mut listed: Vec<(&Violation, &Known)> = Vec::new();
    for v in &rep.violations {
        if let Some(k) = known.iter().find(|k| k.property == ctx.id && v.key.contains(&k.key_substr)) {
            listed.push((v, k));
        } else {
            unlisted.push(v);
        }
    }
    let mut replay_paths = Vec::new();
    let rdir = root().join("replay").join(&ctx.id);
    for v in &unlisted {
        let _ = std::fs::create_dir_all(&rdir);
        let path = rdir.join(format!("{:016x}.json", fnv_str(&v.key)));
        let j = Json::obj().with("property", ctx.id.as_str()).with("key", v.key.as_str()).with("what", v.what.as_str()).with("detail", v.detail.clone()).with("seed", ctx.seed).with("tier", ctx.tier.name()).with("flavour", ctx.flavour.as_str());
        let _ = std::fs::write(&path, j.to_string_pretty());
        replay_paths.push(path);
    }
    if rep.samples.is_empty() {
        rep.samples.push(Json::Str("(no case was run)".into()));
    }
    let mut cov = Json::obj();
    cov.set("evaluations", rep.evaluations);
    cov.set("distinct_nontrivial", rep.distinct_nontrivial);
    cov.set("rule", rep.rule.as_str());
    cov.set("samples", Json::Arr(rep.samples.clone()));
    cov.set("states", rep.states.max(1));
    cov.set("transitions", rep.transitions.max(1));
    cov.set("traces_validated_against_impl", rep.transitions);
    cov.set("exhaustive", rep.exhaustive);
    cov.set("notes", Json::Arr(rep.notes.iter().map(|s| Json::Str(s.clone())).collect()));
    cov.set("known_findings_matched", Json::Arr(listed.iter().map(|(v, _)| Json::Str(v.key.clone())).collect()));
    cov.set("violation_keys", Json::Arr(unlisted.iter().map(|v| Json::Str(v.key.clone())).collect()));
    cov.set("build_flavour", ctx.flavour.as_str());
    if !rep.machinery_errors.is_empty() {
        cov.set("machinery_errors", Json::Arr(rep.machinery_errors.iter().map(|s| Json::Str(s.clone())).collect()));
    }
    for (k, v) in &rep.extra {
        cov.set(k, v.clone());
    }
    let ev = Json::obj()
        .with("property_id", ctx.id.as_str())
        .with("tier", ctx.tier.name())
        .with("seed", ctx.seed)
        .with("level", rep.level.as_str())
        .with("coverage", cov)
        .with("assumptions", Json::Arr(rep.assumptions.iter().map(|s| Json::Str(s.clone())).collect()))
        .with("wall_s", wall)
        .with("violations", unlisted.len());
    // the per-flavour partial evidence goes next to the final one; the driver merges when a check uses several builds
    let evdir = root().join("evidence");
    let _ = std::fs::create_dir_all(&evdir);
    let name = match std::env::var("VERIF_EVIDENCE_PART") {
        Ok(part) if !part.is_empty() => format!("{}.{}.part.json", ctx.id, part),
        _ => format!("{}.json", ctx.id),
    };
    if let Err(e) = std::fs::write(evdir.join(&name), ev.to_string_pretty()) {
        eprintln!("cannot write evidence: {}", e);
        return 2;
    }
    for (v, k) in &listed {
        println!("KNOWN-FINDING: property={} {} [{}]", ctx.id, k.what, v.key);
    }
    for (v, p) in unlisted.iter().zip(&replay_paths) {
        println!("VIOLATION property={} replay={}", ctx.id, p.display());
        println!("  what: {}", v.what);
        println!("  key:  {}", v.key);
    }
    println!(
        "[{}] tier={} flavour={} evaluations={} states={} transitions={} violations={} known={} wall={:.1}s",
        ctx.id,
        ctx.tier.name(),
        ctx.flavour,
        rep.evaluations,
        rep.states,
        rep.transitions,
        unlisted.len(),
        listed.len(),
        wall
    );
    if !rep.machinery_errors.is_empty() {
        for m in &rep.machinery_errors {
            eprintln!("MACHINERY-ERROR: {}", m);
        }
        if unlisted.is_empty() {
            return 2;
        }
    }
    if unlisted.is_empty() {
        0
    } else {
        1
    }
}

/// `prop|k=v|k=v` -> map
pub fn parse_key(key: &str) -> BTreeMap<String, String> {
    let mut m = BTreeMap::new();
    for (i, part) in key.split('|').enumerate() {
        if i == 0 {
            m.insert("prop".to_string(), part.to_string());
        } else if let Some((k, v)) = part.split_once('=') {
            m.insert(k.to_string(), v.to_string());
        }
    }
    m
}
