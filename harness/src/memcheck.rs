//! Engine A with the memory monitor (C03, C15): every case runs inside guard-paged buffers in a worker
//! *process*; a fatal signal is reported with the case that was executing and the sweep resumes after it.
use crate::checks::c09::{data_lengths, out_lengths, scratch_lengths};
use crate::core::*;
use crate::framework::{parse_key, Ctx, Report, Tier};
use crate::lens;
use crate::mem::{self, Arena, DualArena, Place, NFIELDS};
use crate::util::{threads, Json};
use rustfft::{Fft, FftDirection};
use std::cell::RefCell;
use std::io::{BufRead, BufReader};
use std::process::{Command, Stdio};
use std::sync::Mutex;

#[derive(Copy, Clone, Debug, PartialEq, Eq)]
pub enum Mode {
    C03,
    C15,
}
impl Mode {
    pub fn name(self) -> &'static str {
        match self {
            Mode::C03 => "C03",
            Mode::C15 => "C15",
        }
    }
    pub fn code(self) -> i64 {
        match self {
            Mode::C03 => 3,
            Mode::C15 => 15,
        }
    }
}

pub fn mem_lens(mode: Mode, tier: Tier) -> (Vec<usize>, usize) {
    if let Some(d) = std::env::var("VERIF_MEM_DENSE").ok().and_then(|s| s.parse::<usize>().ok()) {
        let mut l: Vec<usize> = (1..=d).collect();
        let pool = lens::thin(&lens::pool(d, 1 << 13), 16);
        l.extend(pool.iter().map(|x| x.0));
        return (l, d);
    }
    let dense_n = tier.pick(256, 1024);
    let mut l: Vec<usize> = (1..=dense_n).collect();
    let hi = match mode {
        Mode::C03 => tier.pick(1 << 14, 1 << 17),
        Mode::C15 => tier.pick(1 << 13, 1 << 14),
    };
    let pool = lens::thin(&lens::pool(dense_n, hi), tier.pick(32, 160));
    l.extend(pool.iter().map(|x| x.0));
    // size-gated code paths: a few large lengths (light shape set, see `shapes`)
    for big in tier.pick(vec![16384usize, 32768, 65536, 3 * 32768, 131072], vec![16384usize, 32768, 65536, 3 * 32768, 131072, 262144, 5 * 65536, 524288, 1 << 20]) {
        if !l.contains(&big) {
            l.push(big);
        }
    }
    // one length of every plan class just above 2^16 (16-bit index arithmetic: gather indexes, i*i products)
    for (big, _) in lens::beyond_u16(tier == Tier::Thorough) {
        if !l.contains(&big) {
            l.push(big);
        }
    }
    // interleave large and small so that stripes (index mod workers) are balanced
    (l, dense_n)
}

/// (n, k): calls with MANY chunks and several MiB in one buffer (batch-size- and byte-size-gated paths in the shared
/// chunking helpers); well-shaped, exact scratch, end-flush placement
pub fn many_chunks(tier: Tier) -> Vec<(usize, usize)> {
    let mut v = vec![(4096usize, 130usize), (16384, 33), (1000, 600), (17, 40000), (64, 9000)];
    if tier == Tier::Thorough {
        v.extend_from_slice(&[(37, 20000), (1024, 1025), (65536, 17), (243, 5000), (59, 12000)]);
    }
    v
}

fn key_from_fields(f: &[i64]) -> String {
    let mode = if f[0] == 15 { "C15" } else { "C03" };
    let pk = PK::ALL.get(f[1].max(0) as usize).map(|p| p.name()).unwrap_or("?");
    let e = if f[5] < 0 { "plan".to_string() } else { Entry::ALL.get(f[5] as usize).map(|e| e.name().to_string()).unwrap_or("?".into()) };
    let mask = if f.len() > 11 && f[11] >= 0 { format!("|maskbits={}", f[11]) } else { String::new() };
    format!(
        "{}|pk={}|T=f{}|dir={}|n={}|entry={}|data={}|out={}|scratch={}|place={}{}",
        mode,
        pk,
        f[2],
        if f[3] == 0 { "fwd" } else { "inv" },
        f[4],
        e,
        f[6],
        f[7],
        f[8],
        match f[9] {
            0 => "end",
            1 => "start",
            _ => "minaligned",
        },
        mask
    )
}
fn fields_from_key(key: &str) -> Option<[i64; NFIELDS]> {
    let m = parse_key(key);
    let mut f = [-1i64; NFIELDS];
    f[0] = if m.get("prop")? == "C15" { 15 } else { 3 };
    f[1] = PK::ALL.iter().position(|p| p.name() == m.get("pk").map(|s| s.as_str()).unwrap_or(""))? as i64;
    f[2] = if m.get("T")? == "f32" { 32 } else { 64 };
    f[3] = if m.get("dir")? == "fwd" { 0 } else { 1 };
    f[4] = m.get("n")?.parse().ok()?;
    f[5] = match m.get("entry")?.as_str() {
        "plan" => -1,
        e => Entry::ALL.iter().position(|x| x.name() == e)? as i64,
    };
    f[6] = m.get("data")?.parse().ok()?;
    f[7] = m.get("out")?.parse().ok()?;
    f[8] = m.get("scratch")?.parse().ok()?;
    f[9] = match m.get("place")?.as_str() {
        "end" => 0,
        "start" => 1,
        _ => 2,
    };
    if let Some(mb) = m.get("maskbits").and_then(|s| s.parse::<i64>().ok()) {
        f[11] = mb;
    }
    Some(f)
}

thread_local! {
    pub static LAST_PANIC: RefCell<Option<(String, u32, String)>> = RefCell::new(None);
}

fn shapes(mode: Mode, n: usize, e: Entry, adv: usize, kmax: usize) -> Vec<(usize, usize, usize)> {
    let mut v: Vec<(usize, usize, usize)> = Vec::new();
    let out = |dl: usize| if e.has_output() { dl } else { 0 };
    if n > 16000 {
        // large lengths: well-shaped k = 1, 2 and three ill-shaped variants
        v.push((n, out(n), adv));
        v.push((2 * n, out(2 * n), adv));
        v.push((n + 1, out(n + 1), adv));
        if e.has_output() {
            v.push((n, n - 1, adv));
        }
        if e != Entry::Process && adv > 0 {
            v.push((n, out(n), adv - 1));
        }
        if mode == Mode::C15 {
            for s in v.iter_mut() {
                s.1 = if s.1 == 0 { s.0 } else { s.1 };
            }
        }
        return v;
    }
    match mode {
        Mode::C03 => {
            for k in 1..=kmax {
                v.push((k * n, out(k * n), adv));
            }
            for k in [1usize, 2] {
                v.push((k * n + 1, out(k * n + 1), adv));
                if k * n > 1 {
                    v.push((k * n - 1, out(k * n - 1), adv));
                }
            }
            if e.has_output() {
                v.push((n, n + 1, adv));
                if n > 1 {
                    v.push((n, n - 1, adv));
                }
                v.push((2 * n, n, adv));
                v.push((n, 2 * n, adv));
                v.push((n, 0, adv));
            }
            if e != Entry::Process && adv > 0 {
                v.push((n, out(n), adv - 1));
                v.push((n, out(n), 0));
                v.push((2 * n, out(2 * n), adv - 1));
            }
        }
        Mode::C15 => {
            for k in 1..=kmax {
                v.push((k * n, k * n, adv));
            }
            for dl in data_lengths(n) {
                for ol in out_lengths(dl, n) {
                    for sl in scratch_lengths(adv) {
                        v.push((dl, ol, sl));
                    }
                }
            }
        }
    }
    let mut seen = std::collections::BTreeSet::new();
    v.retain(|x| seen.insert(*x));
    v
}

struct Worker {
    mode: Mode,
    counter: i64,
    skip_upto: i64,
    single: Option<[i64; NFIELDS]>,
    evaluations: u64,
    nontrivial: u64,
    states: u64,
    a_in: Arena,
    a_ro: DualArena,
    a_out: Arena,
    a_scr: Arena,
    dbg_build: bool,
}

impl Worker {
    fn run_len<T: Real>(&mut self, n: usize, kmax: usize) {
        let tycode = if T::NAME == "f32" { 32 } else { 64 };
        for (pki, &pk) in PK::ALL.iter().enumerate() {
            if let Some(s) = &self.single {
                if s[1] != pki as i64 || s[2] != tycode || s[4] != n as i64 {
                    continue;
                }
            }
            let mut pl = match AnyPlanner::<T>::new(pk) {
                Some(p) => p,
                None => continue,
            };
            for (di, d) in DIRS.iter().enumerate() {
                let mut f = [-1i64; NFIELDS];
                f[0] = self.mode.code();
                f[1] = pki as i64;
                f[2] = tycode;
                f[3] = di as i64;
                f[4] = n as i64;
                f[10] = self.counter;
                f[11] = std::env::var("VERIF_FEATURE_MASK").ok().and_then(|s| s.parse::<i64>().ok()).unwrap_or(-1);
                mem::set_current(&f);
                let fft = match plan_catch(&mut pl, n, *d) {
                    Ok(x) => x,
                    Err(_) => continue, // C04 owns planning panics
                };
                self.states += 1;
                let entries: &[Entry] = match self.mode {
                    Mode::C03 => &Entry::ALL,
                    Mode::C15 => &[Entry::Immut],
                };
                for &e in entries {
                    let ei = Entry::ALL.iter().position(|x| *x == e).unwrap() as i64;
                    let adv = e.scratch_len(fft.as_ref());
                    for (dl, ol, sl) in shapes(self.mode, n, e, adv, kmax) {
                        for (pi, place) in Place::ALL.iter().enumerate() {
                            self.counter += 1;
                            if self.counter <= self.skip_upto {
                                continue;
                            }
                            f[5] = ei;
                            f[6] = dl as i64;
                            f[7] = ol as i64;
                            f[8] = sl as i64;
                            f[9] = pi as i64;
                            f[10] = self.counter;
                            if let Some(s) = &self.single {
                                if s[..10] != f[..10] {
                                    continue;
                                }
                            }
                            mem::set_current(&f);
                            self.one_case::<T>(fft.as_ref(), e, n, dl, ol, sl, *place, &f);
                        }
                    }
                }
            }
        }
    }

    /// one well-shaped call with k chunks per (planner, direction, entry point); scratch exactly as advertised
    fn run_many<T: Real>(&mut self, n: usize, k: usize) {
        let tycode = if T::NAME == "f32" { 32 } else { 64 };
        for (pki, &pk) in PK::ALL.iter().enumerate() {
            if pk == PK::Auto {
                continue;
            }
            let mut pl = match AnyPlanner::<T>::new(pk) {
                Some(p) => p,
                None => continue,
            };
            for (di, d) in DIRS.iter().enumerate() {
                let fft = match plan_catch(&mut pl, n, *d) {
                    Ok(x) => x,
                    Err(_) => continue,
                };
                let entries: &[Entry] = match self.mode {
                    Mode::C03 => &Entry::ALL,
                    Mode::C15 => &[Entry::Immut],
                };
                for &e in entries {
                    let adv = e.scratch_len(fft.as_ref());
                    let mut f = [-1i64; NFIELDS];
                    f[0] = self.mode.code();
                    f[1] = pki as i64;
                    f[2] = tycode;
                    f[3] = di as i64;
                    f[4] = n as i64;
                    f[5] = Entry::ALL.iter().position(|x| *x == e).unwrap() as i64;
                    f[6] = (n * k) as i64;
                    f[7] = if e.has_output() || self.mode == Mode::C15 { (n * k) as i64 } else { 0 };
                    f[8] = adv as i64;
                    f[9] = 0;
                    self.counter += 1;
                    f[10] = self.counter;
                    if self.counter <= self.skip_upto {
                        continue;
                    }
                    if let Some(s) = &self.single {
                        if s[..10] != f[..10] {
                            continue;
                        }
                    }
                    mem::set_current(&f);
                    self.one_case::<T>(fft.as_ref(), e, n, n * k, f[7] as usize, adv, Place::EndFlush, &f);
                }
            }
        }
    }

    fn one_case<T: Real>(&mut self, fft: &dyn Fft<T>, e: Entry, n: usize, dl: usize, ol: usize, sl: usize, place: Place, f: &[i64; NFIELDS]) {
        let out: &mut [C<T>] = self.a_out.slice(ol, place);
        let scr: &mut [C<T>] = self.a_scr.slice(sl, place);
        let mut r = crate::util::Rng::new(0xABCD ^ (n as u64) << 8 ^ dl as u64);
        for x in out.iter_mut() {
            *x = C::new(T::from64(0.25), T::from64(-0.5));
        }
        for x in scr.iter_mut() {
            *x = C::new(T::from64(3.0), T::from64(-7.0));
        }
        LAST_PANIC.with(|p| *p.borrow_mut() = None);
        let res;
        let mut snapshot: Vec<(u64, u64)> = Vec::new();
        if self.mode == Mode::C15 {
            // input: permanently read-only view, filled through the writable alias
            let fill: &mut [C<T>] = self.a_ro.alias(dl, place);
            for x in fill.iter_mut() {
                *x = C::new(T::from64(r.sym()), T::from64(r.sym()));
            }
            snapshot = bits_of(fill);
            let input: &[C<T>] = self.a_ro.view(dl, place);
            res = std::panic::catch_unwind(std::panic::AssertUnwindSafe(|| fft.process_immutable_with_scratch(input, out, scr)));
        } else {
            let data: &mut [C<T>] = self.a_in.slice(dl, place);
            for x in data.iter_mut() {
                *x = C::new(T::from64(r.sym()), T::from64(r.sym()));
            }
            res = std::panic::catch_unwind(std::panic::AssertUnwindSafe(|| match e {
                Entry::Process => fft.process(data),
                Entry::InPlace => fft.process_with_scratch(data, scr),
                Entry::OutOfPlace => fft.process_outofplace_with_scratch(data, out, scr),
                Entry::Immut => fft.process_immutable_with_scratch(data, out, scr),
            }));
        }
        self.evaluations += 1;
        if n >= 2 {
            self.nontrivial += 1;
        }
        if res.is_err() {
            // an ordinary (unwinding) panic is not a memory event, unless it is one of the crate's own index assertions
            if let Some((file, line, msg)) = LAST_PANIC.with(|p| p.borrow_mut().take()) {
                let idx_file = ["array_utils.rs", "avx_vector.rs", "sse_vector.rs", "sse_utils.rs", "avx32_utils.rs", "avx64_utils.rs", "sse_common.rs"].iter().any(|s| file.ends_with(s));
                if self.mode == Mode::C03 && ((idx_file && msg.contains("assertion failed")) || msg.contains("unsafe precondition")) {
                    println!("VIOL\t{}\tindex assertion failed inside unsafe code at {}:{}: {}", key_from_fields(f), file, line, msg.replace('\n', " "));
                }
            }
        }
        if self.mode == Mode::C15 {
            let now = bits_of::<T>(self.a_ro.view(dl, place));
            if now != snapshot {
                let first = now.iter().zip(&snapshot).position(|(a, b)| a != b).unwrap_or(0);
                println!(
                    "VIOL\t{}\tinput of process_immutable_with_scratch changed at element {} of {} ({})",
                    key_from_fields(f),
                    first,
                    dl,
                    if res.is_err() { "call panicked" } else { "call returned" }
                );
            }
        }
        let _ = self.dbg_build;
    }
}

/// entry point of the worker process: `rfv memworker <C03|C15> <tier> <stripe> <nstripes> <skip_upto> [single fields...]`
pub fn worker_main(args: &[String]) -> i32 {
    let mode = if args.get(0).map(|s| s.as_str()) == Some("C15") { Mode::C15 } else { Mode::C03 };
    let tier = if args.get(1).map(|s| s.as_str()) == Some("thorough") { Tier::Thorough } else { Tier::Quick };
    let stripe: usize = args.get(2).and_then(|s| s.parse().ok()).unwrap_or(0);
    let nstripes: usize = args.get(3).and_then(|s| s.parse().ok()).unwrap_or(1);
    let skip_upto: i64 = args.get(4).and_then(|s| s.parse().ok()).unwrap_or(0);
    let single: Option<[i64; NFIELDS]> = if args.len() >= 5 + NFIELDS {
        let mut f = [-1i64; NFIELDS];
        for i in 0..NFIELDS {
            f[i] = args[5 + i].parse().unwrap_or(-1);
        }
        Some(f)
    } else {
        None
    };
    if let Some(m) = std::env::var("VERIF_FEATURE_MASK").ok().and_then(|s| s.parse::<u32>().ok()) {
        rustfft::verif_hooks::set_feature_mask(m);
    }
    mem::install_fatal_handlers();
    install_worker_panic_hook();
    let (lens_, dense_n) = mem_lens(mode, tier);
    let my: Vec<usize> = match &single {
        Some(s) => vec![s[4] as usize],
        None => lens_.iter().enumerate().filter(|(i, _)| i % nstripes == stripe).map(|(_, n)| *n).collect(),
    };
    let kmax_dense = match (mode, tier) {
        (Mode::C03, Tier::Quick) => 3,
        _ => 8,
    };
    // the largest buffer any case of this stripe needs: up to 8 chunks (+1 for the ill-shaped variants) below the
    // large-length range, 2 chunks (+1) above it; the maximum is taken over ALL lengths of the stripe (a mid-size
    // length with 8 chunks needs more than the largest length with 2)
    let _ = (dense_n, kmax_dense);
    let elems = |n: usize| -> usize { (if n > 16000 { 2 } else { 8 }) * n + n + 2 };
    let mc: Vec<(usize, usize)> = if single.is_some() { Vec::new() } else { many_chunks(tier).into_iter().enumerate().filter(|(i, _)| i % nstripes == stripe).map(|(_, x)| x).collect() };
    let single_elems = single.as_ref().map(|s| (s[6].max(s[7]).max(0) as usize) + 2).unwrap_or(0);
    let bytes = my.iter().map(|&n| elems(n)).chain(mc.iter().map(|&(n, k)| n * k + 2)).chain(std::iter::once(single_elems)).max().unwrap_or(4) * 16 + 64;
    // scratch can be larger than the data (Bluestein): be generous, it is only address space
    let mut w = Worker { mode, counter: 0, skip_upto, single, evaluations: 0, nontrivial: 0, states: 0, a_in: Arena::new(bytes), a_ro: DualArena::new(if mode == Mode::C15 { bytes } else { 4096 }), a_out: Arena::new(bytes), a_scr: Arena::new(bytes * 4 + (1 << 20)), dbg_build: cfg!(debug_assertions) };
    for &n in &my {
        let kmax = if n <= dense_n { kmax_dense } else { 3.min(kmax_dense) };
        w.run_len::<f32>(n, kmax);
        w.run_len::<f64>(n, kmax);
    }
    for &(n, k) in &mc {
        w.run_many::<f32>(n, k);
        w.run_many::<f64>(n, k);
    }
    if let Some(s) = w.single {
        // replay of a many-chunks case
        let (n, dl) = (s[4].max(1) as usize, s[6].max(0) as usize);
        if dl > 9 * n + 2 && dl % n == 0 {
            w.run_many::<f32>(n, dl / n);
            w.run_many::<f64>(n, dl / n);
        }
    }
    println!("STAT evaluations={} nontrivial={} states={} counter={}", w.evaluations, w.nontrivial, w.states, w.counter);
    0
}

pub struct StripeOut {
    pub evaluations: u64,
    pub nontrivial: u64,
    pub states: u64,
    pub viols: Vec<(String, String)>,
    pub crashes: Vec<(String, i64)>,
    pub machinery: Vec<String>,
    pub restarts: u32,
    pub info: Vec<String>,
}

fn run_stripe(mode: Mode, tier: Tier, stripe: usize, nstripes: usize, single: Option<[i64; NFIELDS]>) -> StripeOut {
    run_stripe_generic("memworker", mode.name(), tier, stripe, nstripes, single, &key_from_fields)
}

pub fn run_stripe_generic(worker_cmd: &str, mode_name: &str, tier: Tier, stripe: usize, nstripes: usize, single: Option<[i64; NFIELDS]>, keyfn: &dyn Fn(&[i64]) -> String) -> StripeOut {
    let exe = std::env::current_exe().expect("current_exe");
    let mut out = StripeOut { evaluations: 0, nontrivial: 0, states: 0, viols: vec![], crashes: vec![], machinery: vec![], restarts: 0, info: vec![] };
    let mut skip: i64 = 0;
    loop {
        let mut cmd = Command::new(&exe);
        cmd.arg(worker_cmd).arg(mode_name).arg(tier.name()).arg(stripe.to_string()).arg(nstripes.to_string()).arg(skip.to_string());
        if let Some(s) = &single {
            for f in s.iter() {
                cmd.arg(f.to_string());
            }
            if s[11] >= 0 {
                cmd.env("VERIF_FEATURE_MASK", s[11].to_string());
            }
        }
        cmd.stdout(Stdio::piped()).stderr(Stdio::piped());
        let mut child = match cmd.spawn() {
            Ok(c) => c,
            Err(e) => {
                out.machinery.push(format!("cannot spawn worker: {}", e));
                return out;
            }
        };
        let stdout = child.stdout.take().unwrap();
        let stderr = child.stderr.take().unwrap();
        let errh = std::thread::spawn(move || {
            let mut v = Vec::new();
            for l in BufReader::new(stderr).lines().flatten() {
                if l.contains("MACHINERY-ERROR") && v.len() < 5 {
                    v.push(l);
                }
            }
            v
        });
        let mut crashed: Option<(Vec<i64>, i64)> = None;
        let mut got_stat = false;
        for line in BufReader::new(stdout).lines().flatten() {
            if let Some(rest) = line.strip_prefix("VIOL\t") {
                if let Some((k, w)) = rest.split_once('\t') {
                    out.viols.push((k.to_string(), w.to_string()));
                }
            } else if let Some(rest) = line.strip_prefix("CRASH sig=") {
                let nums: Vec<i64> = rest.split_whitespace().filter_map(|t| t.parse().ok()).collect();
                if nums.len() == NFIELDS + 1 {
                    crashed = Some((nums[1..].to_vec(), nums[0]));
                }
            } else if let Some(rest) = line.strip_prefix("INFO\t") {
                if out.info.len() < 200 {
                    out.info.push(rest.to_string());
                }
            } else if let Some(rest) = line.strip_prefix("STAT ") {
                got_stat = true;
                for tok in rest.split_whitespace() {
                    if let Some((k, v)) = tok.split_once('=') {
                        let v: u64 = v.parse().unwrap_or(0);
                        match k {
                            "evaluations" => out.evaluations += v,
                            "nontrivial" => out.nontrivial += v,
                            "states" => out.states += v,
                            _ => {}
                        }
                    }
                }
            }
        }
        let status = child.wait();
        out.machinery.extend(errh.join().unwrap_or_default());
        match crashed {
            Some((fields, sig)) => {
                let key = keyfn(&fields);
                out.crashes.push((key, sig));
                // resume after the crashing case
                skip = fields[10].max(skip + 1);
                out.restarts += 1;
                if single.is_some() || out.restarts >= 12 {
                    if single.is_none() {
                        out.machinery.push(format!("stripe {} stopped after {} crashes; the rest of the stripe was not explored", stripe, out.restarts));
                    }
                    return out;
                }
            }
            None => {
                if !got_stat {
                    out.machinery.push(format!("worker for stripe {} ended without a result: {:?}", stripe, status));
                }
                return out;
            }
        }
    }
}

pub fn run_parent(mode: Mode, ctx: &Ctx) -> Report {
    let mut rep = Report::new();
    if let Some(r) = &ctx.replay {
        let key = r.get("key").and_then(|k| k.as_str()).unwrap_or("").to_string();
        let f = match fields_from_key(&key) {
            Some(f) => f,
            None => {
                rep.machinery_errors.push("cannot parse replay key".into());
                return rep;
            }
        };
        let mut results = Vec::new();
        for _ in 0..2 {
            let so = run_stripe(mode, ctx.tier, 0, 1, Some(f));
            let what = if let Some((k, sig)) = so.crashes.first() {
                Some(format!("fatal signal {} while executing {}", sig, k))
            } else {
                so.viols.first().map(|(_, w)| w.clone())
            };
            println!("replay: {}", what.clone().map(|w| format!("reproduces: {}", w)).unwrap_or("does not reproduce".into()));
            results.push(what);
        }
        if results[0] != results[1] {
            rep.machinery_errors.push("replay is not deterministic".into());
        } else if let Some(w) = results[0].clone() {
            rep.violate(key.clone(), w, Json::Null);
        }
        rep.evaluations = 2;
        rep.distinct_nontrivial = 2;
        rep.rule = "replay of one recorded case in a worker process, run twice".into();
        rep.sample(Json::Str(key));
        return rep;
    }
    let nstripes = threads();
    let outs: Mutex<Vec<StripeOut>> = Mutex::new(Vec::new());
    std::thread::scope(|s| {
        for st in 0..nstripes {
            let outs = &outs;
            s.spawn(move || {
                let o = run_stripe(mode, ctx.tier, st, nstripes, None);
                outs.lock().unwrap().push(o);
            });
        }
    });
    let mut crashes = 0;
    for o in outs.into_inner().unwrap() {
        rep.evaluations += o.evaluations;
        rep.transitions += o.evaluations;
        rep.distinct_nontrivial += o.nontrivial;
        rep.states += o.states;
        for (k, w) in o.viols {
            rep.violate(k, w, Json::Null);
        }
        for (k, sig) in o.crashes {
            crashes += 1;
            let signame = match sig {
                11 => "SIGSEGV",
                7 => "SIGBUS",
                6 => "SIGABRT",
                4 => "SIGILL",
                8 => "SIGFPE",
                _ => "signal",
            };
            let cause = if mode == Mode::C15 { "a store into the read-only mapping that holds the input of process_immutable_with_scratch (or an access outside the caller's buffers)" } else { "an access outside the caller's buffers hit a guard page, or an unsafe precondition check aborted" };
            rep.violate(k.clone(), format!("{} ({}) while executing the call: {}", signame, sig, cause), Json::obj().with("signal", sig));
        }
        rep.machinery_errors.extend(o.machinery);
    }
    rep.set("worker_crashes", crashes as i64);
    rep.set("worker_processes", nstripes);
    rep
}

#[allow(dead_code)]
pub fn dir_of(i: i64) -> FftDirection {
    if i == 0 {
        FftDirection::Forward
    } else {
        FftDirection::Inverse
    }
}

/// panic hook of worker processes: remember where the last panic came from, shout if it is the harness's own
pub fn install_worker_panic_hook() {
    std::panic::set_hook(Box::new(|info| {
        let (file, line) = info.location().map(|l| (l.file().to_string(), l.line())).unwrap_or_default();
        let msg = if let Some(s) = info.payload().downcast_ref::<&str>() {
            s.to_string()
        } else if let Some(s) = info.payload().downcast_ref::<String>() {
            s.clone()
        } else {
            String::new()
        };
        if file.starts_with("src/") {
            eprintln!("MACHINERY-ERROR: harness panic at {}:{}: {}", file, line, msg);
        }
        LAST_PANIC.with(|p| *p.borrow_mut() = Some((file, line, msg)));
    }));
}
