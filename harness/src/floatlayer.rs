//! Engine A, float layer: every (planner, type, direction, n, entry point, input) of a stated finite space is
//! executed on the real code and compared with the double-double reference DFT. Shared by C01, C02, C13.
use crate::core::*;
use crate::dd::DD;
use crate::framework::{parse_key, Report};
use crate::inputs::{self, Input};
use crate::refdft::{all_finite, l2_error, Ref};
use crate::util::{par_map, Json};
use rustfft::{Fft, FftDirection};
use std::sync::Arc;

#[derive(Clone)]
pub struct FloatCfg {
    pub prop: &'static str,
    pub planners: Vec<PK>,
    pub entries: Vec<Entry>,
    pub lens: Vec<usize>,
    /// n <= this: the complete real basis (2n impulses); above: 6 edge + 16 stratified positions (x2)
    pub full_basis_max: usize,
    /// n <= this: O(n^2) reference available, so the whole STRUCT alphabet runs; above: closed-form members only
    pub quad_max: usize,
    pub use_basis: bool,
    pub use_struct: bool,
    /// tolerance = tol_mult * B(n) (+ the closed-form input-rounding slack)
    pub tol_mult: f64,
    pub f32_on: bool,
    pub f64_on: bool,
    pub seed: u64,
    /// appended to every case key (e.g. "|mask=sse41")
    pub key_extra: String,
}

pub fn case_key(prop: &str, pk: PK, ty: &str, dir: FftDirection, n: usize, entry: Entry, input: &str, extra: &str) -> String {
    format!("{}|pk={}|T={}|dir={}|n={}|entry={}|in={}{}", prop, pk.name(), ty, dir_name(dir), n, entry.name(), input, extra)
}

/// One execution + oracle. Returns (ratio = err / tolerance-in-absolute-units, violation text if any).
pub fn eval_case<T: Real>(fft: &dyn Fft<T>, entry: Entry, xt: &[C<T>], reference: &[(DD, DD)], n: usize, tol_rel: f64) -> (f64, Option<String>) {
    let co = call_plain(fft, entry, xt);
    let out = match co.out {
        Some(o) => o,
        None => return (f64::INFINITY, Some(format!("well-shaped call panicked: {}", co.panic_msg.unwrap_or_default()))),
    };
    if out.len() != xt.len() {
        return (f64::INFINITY, Some("output length changed".into()));
    }
    let (err, rn) = l2_error(&out[..n.min(out.len())], reference);
    if !all_finite(&out) {
        return (f64::INFINITY, Some("non-finite output for finite input".into()));
    }
    if rn == 0.0 {
        // zero spectrum: the allowance is zero as well
        if err == 0.0 {
            return (0.0, None);
        }
        return (f64::INFINITY, Some(format!("zero spectrum expected, got error norm {:e}", err)));
    }
    let ratio = err / (tol_rel * rn);
    if ratio > 1.0 {
        (ratio, Some(format!("relative L2 error {:e} exceeds allowance {:e} (x{:.3})", err / rn, tol_rel, ratio)))
    } else {
        (ratio, None)
    }
}

fn sweep_type<T: Real>(cfg: &FloatCfg, n: usize, rf: &Ref, rep: &mut Report) {
    // plan everything first: one fresh planner per (kind, n), both directions from the same planner
    let mut ffts: Vec<(PK, FftDirection, Arc<dyn Fft<T>>)> = Vec::new();
    for &pk in &cfg.planners {
        let mut pl = match AnyPlanner::<T>::new(pk) {
            Some(p) => p,
            None => {
                rep.notes.push(format!("planner {} unavailable{}", pk.name(), cfg.key_extra));
                continue;
            }
        };
        for d in DIRS {
            match plan_catch(&mut pl, n, d) {
                Ok(f) => {
                    if f.len() != n {
                        rep.violate(
                            case_key(cfg.prop, pk, T::NAME, d, n, Entry::Process, "plan", &cfg.key_extra),
                            format!("planned transform reports len {} for request {}", f.len(), n),
                            Json::Null,
                        );
                        continue;
                    }
                    rep.states += 1;
                    ffts.push((pk, d, f));
                }
                Err(msg) => rep.violate(case_key(cfg.prop, pk, T::NAME, d, n, Entry::Process, "plan", &cfg.key_extra), format!("planning panicked: {}", msg), Json::Null),
            }
        }
    }
    if n == 0 {
        // the only input is the empty buffer
        for (pk, d, f) in &ffts {
            for &e in &cfg.entries {
                let co = call_plain::<T>(f.as_ref(), e, &[]);
                rep.evaluations += 1;
                rep.transitions += 1;
                if co.out.is_none() {
                    rep.violate(case_key(cfg.prop, *pk, T::NAME, *d, 0, e, "empty", &cfg.key_extra), format!("length-0 transform rejected the empty buffer: {}", co.panic_msg.unwrap_or_default()), Json::Null);
                }
            }
        }
        return;
    }
    let b = bound::<T>(n) * cfg.tol_mult;
    let mut worst = (0.0f64, String::new());
    let mut record = |rep: &mut Report, pk: PK, d: FftDirection, e: Entry, name: &str, ratio: f64, viol: Option<String>, nontrivial: bool| {
        rep.evaluations += 1;
        rep.transitions += 1;
        if nontrivial && n >= 2 {
            rep.distinct_nontrivial += 1;
        }
        if ratio.is_finite() && ratio > worst.0 {
            worst = (ratio, case_key(cfg.prop, pk, T::NAME, d, n, e, name, &cfg.key_extra));
        }
        if let Some(what) = viol {
            rep.violate(case_key(cfg.prop, pk, T::NAME, d, n, e, name, &cfg.key_extra), what, Json::obj().with("ratio", ratio).with("tolerance_rel", b));
        }
    };
    if cfg.use_basis {
        let pos = inputs::impulse_positions(n, n <= cfg.full_basis_max);
        for d in DIRS {
            for &j in &pos {
                for imag in [false, true] {
                    let col = rf.impulse_col(j, imag, d);
                    let xt: Vec<C<T>> = from_c64(&inputs::impulse(n, j, imag));
                    let name = format!("impulse:{}:{}", if imag { "im" } else { "re" }, j);
                    for (pk, fd, f) in &ffts {
                        if *fd != d {
                            continue;
                        }
                        for &e in &cfg.entries {
                            let (ratio, viol) = eval_case(f.as_ref(), e, &xt, &col, n, b);
                            record(rep, *pk, d, e, &name, ratio, viol, true);
                        }
                    }
                }
            }
        }
        if rep.samples.len() < 2 {
            rep.sample(Json::Str(case_key(cfg.prop, cfg.planners[0], T::NAME, DIRS[0], n, cfg.entries[0], &format!("impulse:re:{}", pos[pos.len() / 2]), &cfg.key_extra)));
        }
    }
    if cfg.use_struct {
        let quad = n <= cfg.quad_max;
        let dynexp = if T::NAME == "f32" { 30 } else { 200 };
        let ins: Vec<Input> = inputs::structured(rf, cfg.seed, dynexp, !quad);
        for inp in &ins {
            let x64 = inputs::round_to::<T>(&inp.x);
            let xt: Vec<C<T>> = from_c64(&x64);
            for d in DIRS {
                let (reference, slack) = match inputs::reference::<T>(rf, inp, &x64, d, quad) {
                    Some(r) => r,
                    None => continue,
                };
                for (pk, fd, f) in &ffts {
                    if *fd != d {
                        continue;
                    }
                    for &e in &cfg.entries {
                        let (ratio, viol) = eval_case(f.as_ref(), e, &xt, &reference, n, b + slack);
                        record(rep, *pk, d, e, &inp.name, ratio, viol, inp.name != "zero");
                    }
                }
            }
        }
        if rep.samples.len() < 4 && !ins.is_empty() {
            rep.sample(Json::Str(case_key(cfg.prop, cfg.planners[0], T::NAME, DIRS[1], n, cfg.entries[cfg.entries.len() - 1], &ins[ins.len() - 1].name, &cfg.key_extra)));
        }
    }
    if worst.0 > 0.0 {
        rep.extra.insert(format!("worst_ratio_{}", T::NAME), Json::obj().with("ratio", worst.0).with("case", worst.1));
    }
}

pub fn run(cfg: &FloatCfg) -> Report {
    // heavy lengths first for better packing; results are merged in ascending n so the smallest counterexample is listed first
    let mut order: Vec<usize> = cfg.lens.clone();
    order.sort();
    order.dedup();
    order.reverse();
    let parts = par_map(&order, |_, &n| {
        let mut rep = Report::new();
        let rf = Ref::new(n);
        if cfg.f32_on {
            sweep_type::<f32>(cfg, n, &rf, &mut rep);
        }
        if cfg.f64_on {
            sweep_type::<f64>(cfg, n, &rf, &mut rep);
        }
        rep
    });
    let mut total = Report::new();
    for p in parts.into_iter().rev() {
        total.merge(p);
    }
    total.set("lengths_run", order.len());
    total.set("max_len", order.first().copied().unwrap_or(0));
    total
}

/// Re-run exactly one case from its key (used by --replay). Returns the violation text if it reproduces.
pub fn replay(key: &str, seed: u64, tol_mult: f64, quad_max: usize) -> Result<Option<String>, String> {
    replay_ratio(key, seed, tol_mult, quad_max).map(|r| r.1)
}

pub fn replay_ratio(key: &str, seed: u64, tol_mult: f64, quad_max: usize) -> Result<(f64, Option<String>), String> {
    let m = parse_key(key);
    let pk = PK::parse(m.get("pk").ok_or("pk")?).ok_or("pk")?;
    let d = parse_dir(m.get("dir").ok_or("dir")?).ok_or("dir")?;
    let n: usize = m.get("n").ok_or("n")?.parse().map_err(|_| "n")?;
    let e = Entry::parse(m.get("entry").ok_or("entry")?).ok_or("entry")?;
    let inp = m.get("in").ok_or("in")?.clone();
    let ty = m.get("T").ok_or("T")?.clone();
    fn go<T: Real>(pk: PK, d: FftDirection, n: usize, e: Entry, inp: &str, seed: u64, tol_mult: f64, quad_max: usize) -> Result<(f64, Option<String>), String> {
        let mut pl = AnyPlanner::<T>::new(pk).ok_or("planner unavailable")?;
        let f = match plan_catch(&mut pl, n, d) {
            Ok(f) => f,
            Err(m) => return Ok((f64::INFINITY, Some(format!("planning panicked: {}", m)))),
        };
        if inp == "plan" {
            return Ok((0.0, if f.len() != n { Some("wrong len".into()) } else { None }));
        }
        if n == 0 {
            let co = call_plain::<T>(f.as_ref(), e, &[]);
            return Ok((0.0, co.panic_msg));
        }
        let rf = Ref::new(n);
        let b = bound::<T>(n) * tol_mult;
        if let Some(rest) = inp.strip_prefix("impulse:") {
            let (ri, j) = rest.split_once(':').ok_or("impulse key")?;
            let j: usize = j.parse().map_err(|_| "impulse idx")?;
            let imag = ri == "im";
            let col = rf.impulse_col(j, imag, d);
            let xt: Vec<C<T>> = from_c64(&inputs::impulse(n, j, imag));
            return Ok(eval_case(f.as_ref(), e, &xt, &col, n, b));
        }
        let quad = n <= quad_max;
        let dynexp = if T::NAME == "f32" { 30 } else { 200 };
        let ins = inputs::structured(&rf, seed, dynexp, !quad);
        let i = ins.iter().find(|i| i.name == inp).ok_or("input not in alphabet")?;
        let x64 = inputs::round_to::<T>(&i.x);
        let xt: Vec<C<T>> = from_c64(&x64);
        let (reference, slack) = inputs::reference::<T>(&rf, i, &x64, d, quad).ok_or("no reference")?;
        Ok(eval_case(f.as_ref(), e, &xt, &reference, n, b + slack))
    }
    if ty == "f32" {
        go::<f32>(pk, d, n, e, &inp, seed, tol_mult, quad_max)
    } else {
        go::<f64>(pk, d, n, e, &inp, seed, tol_mult, quad_max)
    }
}
