//! Input alphabets. Everything is generated in f64 (or dd) and rounded ONCE to the element type; the oracle
//! always works from the rounded values, i.e. from the exact input the transform saw.
use crate::core::{Real, C};
use crate::dd::DD;
use crate::refdft::Ref;
use crate::util::Rng;
use rustfft::FftDirection;

#[derive(Clone, Debug)]
pub enum Closed {
    /// no closed form: needs the O(n^2) reference
    None,
    Zero,
    /// exact: sum of spikes (position, value)
    Spikes(Vec<(usize, C<f64>)>),
    /// x[j] = sum_s a_s exp(+2 pi i f_s j / n), rounded once to T  (relative input perturbation <= eps_T/2)
    Tones(Vec<(usize, C<f64>)>),
}

#[derive(Clone, Debug)]
pub struct Input {
    pub name: String,
    pub x: Vec<C<f64>>,
    pub closed: Closed,
}

/// round an f64 vector to T and back, so that `x` holds exactly what the transform will see
pub fn round_to<T: Real>(x: &[C<f64>]) -> Vec<C<f64>> {
    x.iter().map(|c| C::new(T::from64(c.re).to64(), T::from64(c.im).to64())).collect()
}

pub fn impulse(n: usize, j: usize, imag: bool) -> Vec<C<f64>> {
    let mut v = vec![C::new(0.0, 0.0); n];
    v[j] = if imag { C::new(0.0, 1.0) } else { C::new(1.0, 0.0) };
    v
}

fn tones(r: &Ref, comps: &[(usize, C<f64>)]) -> Vec<C<f64>> {
    let n = r.n;
    (0..n)
        .map(|j| {
            let mut re = DD::ZERO;
            let mut im = DD::ZERO;
            for &(f, a) in comps {
                let idx = ((f as u128 * j as u128) % n as u128) as usize;
                let (c, s) = r.cs[idx]; // exp(+i t) = c + i s
                re = re + (c.mul_f64(a.re) - s.mul_f64(a.im));
                im = im + (s.mul_f64(a.re) + c.mul_f64(a.im));
            }
            C::new(re.to_f64(), im.to_f64())
        })
        .collect()
}

/// The STRUCT(n) alphabet. `dynamic_exp` is the +-exponent range of the wide-dynamic-range vector.
/// With `closed_only`, only members whose spectrum is known in closed form are produced (large n).
pub fn structured(r: &Ref, seed: u64, dynamic_exp: i32, closed_only: bool) -> Vec<Input> {
    let n = r.n;
    let mut v = Vec::new();
    if n == 0 {
        return v;
    }
    v.push(Input { name: "zero".into(), x: vec![C::new(0.0, 0.0); n], closed: Closed::Zero });
    v.push(Input { name: "ones".into(), x: vec![C::new(1.0, 0.0); n], closed: Closed::Tones(vec![(0, C::new(1.0, 0.0))]) });
    // constants that are NOT exactly representable: every addition of the running sum rounds, so summation order and
    // accumulation strategy of the DC path become visible (with "ones" all partial sums are exact integers)
    v.push(Input { name: "const:(0.1,-0.7)".into(), x: vec![C::new(0.1, -0.7); n], closed: Closed::Tones(vec![(0, C::new(0.1, -0.7))]) });
    if n >= 3 {
        let comps = vec![(0usize, C::new(3.3, 1.7)), (n / 3, C::new(0.013, -0.021))];
        v.push(Input { name: "dc+weak-tone".into(), x: tones(r, &comps), closed: Closed::Tones(comps) });
    }
    if n % 2 == 0 {
        v.push(Input {
            name: "alternating".into(),
            x: (0..n).map(|j| C::new(if j % 2 == 0 { 1.0 } else { -1.0 }, 0.0)).collect(),
            closed: Closed::Tones(vec![(n / 2, C::new(1.0, 0.0))]),
        });
    } else if !closed_only {
        v.push(Input { name: "alternating".into(), x: (0..n).map(|j| C::new(if j % 2 == 0 { 1.0 } else { -1.0 }, 0.0)).collect(), closed: Closed::None });
    }
    // on-grid tones
    let mut fs = vec![1 % n, n / 2, n - 1];
    fs.sort();
    fs.dedup();
    for f in fs {
        let comps = vec![(f, C::new(0.75, -0.5))];
        v.push(Input { name: format!("tone:f={}", f), x: tones(r, &comps), closed: Closed::Tones(comps) });
    }
    // sparse spikes (exactly representable values)
    let mut sp = vec![(0usize, C::new(1.0, 0.0)), (n / 3, C::new(0.0, -2.0)), (n - 1, C::new(0.5, 0.5)), (n / 2, C::new(-1.5, 0.25))];
    sp.sort_by_key(|s| s.0);
    sp.dedup_by_key(|s| s.0);
    let mut x = vec![C::new(0.0, 0.0); n];
    for &(j, a) in &sp {
        x[j] = a;
    }
    v.push(Input { name: "spikes".into(), x, closed: Closed::Spikes(sp) });
    // dense: sum of up to 8 on-grid tones with random complex amplitudes (closed form for any n)
    let mut rng = Rng::new(seed ^ (n as u64).wrapping_mul(0x9E37));
    let s = 8.min(n);
    let mut comps: Vec<(usize, C<f64>)> = Vec::new();
    let mut used = std::collections::BTreeSet::new();
    while comps.len() < s {
        let f = rng.below(n as u64) as usize;
        if used.insert(f) {
            comps.push((f, C::new(rng.sym(), rng.sym())));
        }
    }
    v.push(Input { name: "multitone8".into(), x: tones(r, &comps), closed: Closed::Tones(comps) });
    if closed_only {
        return v;
    }
    // ramp
    v.push(Input {
        name: "ramp".into(),
        x: (0..n).map(|j| C::new(j as f64 / n as f64 - 0.5, 0.25 - j as f64 / (2.0 * n as f64))).collect(),
        closed: Closed::None,
    });
    // off-grid tone
    v.push(Input {
        name: "tone:offgrid".into(),
        x: (0..n)
            .map(|j| {
                let a = 2.0 * std::f64::consts::PI * 1.37 * (j as f64) / (n as f64);
                C::new(a.cos(), a.sin())
            })
            .collect(),
        closed: Closed::None,
    });
    // wide dynamic range: random sign * 2^(random exponent in +-dynamic_exp) * mantissa
    v.push(Input {
        name: format!("dynrange:2^+-{}", dynamic_exp),
        x: (0..n)
            .map(|_| {
                let e1 = (rng.below((2 * dynamic_exp + 1) as u64) as i32) - dynamic_exp;
                let e2 = (rng.below((2 * dynamic_exp + 1) as u64) as i32) - dynamic_exp;
                C::new((1.0 + rng.unit()) * rng.sym().signum() * 2f64.powi(e1), (1.0 + rng.unit()) * rng.sym().signum() * 2f64.powi(e2))
            })
            .collect(),
        closed: Closed::None,
    });
    // three dense pseudo-random vectors of three distributions
    v.push(Input { name: "dense:uniform[-1,1]".into(), x: (0..n).map(|_| C::new(rng.sym(), rng.sym())).collect(), closed: Closed::None });
    v.push(Input { name: "dense:gauss".into(), x: (0..n).map(|_| C::new(rng.gauss(), rng.gauss())).collect(), closed: Closed::None });
    v.push(Input { name: "dense:uniform[0,1]".into(), x: (0..n).map(|_| C::new(rng.unit(), rng.unit())).collect(), closed: Closed::None });
    v
}

/// Reference spectrum of `inp` (already rounded to T) for direction `dir`.
/// Returns (spectrum, extra relative slack to add to the tolerance because the closed form ignores the one rounding of the input).
pub fn reference<T: Real>(r: &Ref, inp: &Input, xt: &[C<f64>], dir: FftDirection, allow_quadratic: bool) -> Option<(Vec<(DD, DD)>, f64)> {
    let n = r.n;
    match &inp.closed {
        Closed::Zero => Some((vec![(DD::ZERO, DD::ZERO); n], 0.0)),
        Closed::Spikes(sp) => Some((r.sparse_dft(sp, dir), 0.0)),
        Closed::Tones(comps) if !allow_quadratic => {
            let mut out = vec![(DD::ZERO, DD::ZERO); n];
            for &(f, a) in comps {
                let k = match dir {
                    FftDirection::Forward => f % n,
                    FftDirection::Inverse => (n - f % n) % n,
                };
                out[k].0 = out[k].0 + DD::new(a.re).mul_f64(n as f64);
                out[k].1 = out[k].1 + DD::new(a.im).mul_f64(n as f64);
            }
            Some((out, T::EPS))
        }
        _ => {
            if !allow_quadratic {
                return None;
            }
            if T::NAME == "f32" {
                Some((r.dft_f64(xt, dir), 0.0))
            } else {
                Some((r.dft_dd(xt, dir), 0.0))
            }
        }
    }
}

/// impulse positions for the reduced alphabet
pub fn impulse_positions(n: usize, full: bool) -> Vec<usize> {
    if n == 0 {
        return vec![];
    }
    if full {
        return (0..n).collect();
    }
    let mut p = vec![0, 1 % n, 2 % n, n / 2, n.saturating_sub(2), n - 1];
    for i in 0..16 {
        p.push(((2 * i + 1) * n / 32) % n);
    }
    p.sort();
    p.dedup();
    p
}

/// Cheap inputs for oracle-free checks at any n (no trig table needed)
pub fn cheap(n: usize, seed: u64, dynamic_exp: i32) -> Vec<(String, Vec<C<f64>>)> {
    let mut v = Vec::new();
    if n == 0 {
        return v;
    }
    let mut rng = Rng::new(seed ^ (n as u64).wrapping_mul(0xA24BAED4963EE407));
    v.push(("dense:uniform[-1,1]".to_string(), (0..n).map(|_| C::new(rng.sym(), rng.sym())).collect()));
    v.push(("impulse:mid".to_string(), {
        let mut x = vec![C::new(0.0, 0.0); n];
        x[n / 2] = C::new(1.0, -1.0);
        x
    }));
    v.push(("ones".to_string(), vec![C::new(1.0, 0.0); n]));
    v.push(("ramp".to_string(), (0..n).map(|j| C::new(j as f64 / n as f64 - 0.5, 0.25 - j as f64 / (2.0 * n as f64))).collect()));
    v.push((
        format!("dynrange:2^+-{}", dynamic_exp),
        (0..n)
            .map(|_| {
                let e1 = (rng.below((2 * dynamic_exp + 1) as u64) as i32) - dynamic_exp;
                let e2 = (rng.below((2 * dynamic_exp + 1) as u64) as i32) - dynamic_exp;
                C::new((1.0 + rng.unit()) * rng.sym().signum() * 2f64.powi(e1), (1.0 + rng.unit()) * rng.sym().signum() * 2f64.powi(e2))
            })
            .collect(),
    ));
    v.push(("dense:uniform[0,1]".to_string(), (0..n).map(|_| C::new(rng.unit(), rng.unit())).collect()));
    v
}
