//! Length sets: DENSE(N) = 0..=N, POOL(M) = computed structured lengths above the dense range.
use crate::util::{factorize, is_prime};
use std::collections::BTreeMap;

pub fn dense(n: usize) -> Vec<usize> {
    (0..=n).collect()
}

fn largest_prime_factor(n: u64) -> u64 {
    factorize(n).last().map(|x| x.0).unwrap_or(1)
}

/// class of a prime by what its p-1 looks like (this is what decides Rader vs Bluestein in each planner)
fn prime_class(p: u64) -> &'static str {
    let l = largest_prime_factor(p - 1);
    if l <= 3 {
        "prime:p-1 is 2,3-smooth"
    } else if l <= 11 {
        "prime:p-1 is 11-smooth"
    } else if l <= 23 {
        "prime:p-1 is 23-smooth"
    } else if is_prime((p - 1) / 2) {
        "prime:safe (Cunningham chain)"
    } else {
        "prime:p-1 has factor >23"
    }
}

/// Structured lengths in (lo, hi]. Deterministic; every element comes with the reason it is in the pool.
pub fn pool(lo: usize, hi: usize) -> Vec<(usize, &'static str)> {
    let mut m: BTreeMap<usize, &'static str> = BTreeMap::new();
    let mut add = |n: usize, why: &'static str| {
        if n > lo && n <= hi {
            m.entry(n).or_insert(why);
        }
    };
    // per octave: first prime of each class at/after the octave start and the last prime before the octave end
    let mut oct = 1usize;
    while oct <= hi {
        if oct * 2 > lo {
            let mut seen: Vec<&'static str> = Vec::new();
            let mut p = oct.max(3);
            let mut scanned = 0;
            while p < oct * 2 && seen.len() < 5 && scanned < 20000 {
                if is_prime(p as u64) {
                    let c = prime_class(p as u64);
                    if !seen.contains(&c) {
                        seen.push(c);
                        add(p, c);
                    }
                }
                p += 1;
                scanned += 1;
            }
            let mut q = oct * 2 - 1;
            while q > oct {
                if is_prime(q as u64) {
                    add(q, "prime:last of octave");
                    break;
                }
                q -= 1;
            }
        }
        oct *= 2;
    }
    // prime powers
    for p in [2usize, 3, 5, 7, 11, 13, 17, 19, 23, 29, 31, 37, 41, 43, 47, 53, 59, 61, 67, 71, 73, 79, 83, 89, 97, 101, 127, 131, 251, 257, 509, 521, 1021, 1031] {
        let mut v = p * p;
        let mut e = 2;
        while v <= hi && e <= 4 {
            if p > 11 || e >= 3 {
                add(v, "prime power");
            }
            v = v.saturating_mul(p);
            e += 1;
        }
    }
    // products of two primes, one from each kind
    let small = [13usize, 17, 31, 37, 41, 47, 59, 73, 97, 127, 193, 257];
    let large = [47usize, 59, 83, 107, 167, 179, 227, 263, 347, 359, 383, 467, 479, 503, 769, 1021, 1031, 1153, 2039, 2053];
    for &a in &small {
        for &b in &large {
            if a != b {
                add(a * b, "product of two primes");
            }
        }
    }
    for w in large.windows(2) {
        add(w[0] * w[1], "product of two large primes");
    }
    // small multiples of awkward primes (radix chain on top of a Rader/Bluestein base)
    for &p in &[37usize, 41, 47, 59, 73, 83, 97, 127, 179, 257, 1021, 2039] {
        for &k in &[2usize, 3, 4, 5, 6, 7, 8, 9, 11, 12, 16, 24, 36, 48, 64, 72, 96, 128, 144, 256] {
            add(p * k, "radix chain over prime base");
        }
    }
    // 11-smooth numbers by planner-relevant signature: smallest and largest representative in range
    let mut sig_min: BTreeMap<(u32, u32, u32, u32, u32), usize> = BTreeMap::new();
    let mut sig_max: BTreeMap<(u32, u32, u32, u32, u32), usize> = BTreeMap::new();
    let mut v2 = 1usize;
    let mut a = 0u32;
    while v2 <= hi {
        let mut v3 = v2;
        let mut b = 0u32;
        while v3 <= hi {
            for c in 0..3u32 {
                for d in 0..3u32 {
                    for e in 0..3u32 {
                        let v = v3.saturating_mul(5usize.pow(c)).saturating_mul(7usize.pow(d)).saturating_mul(11usize.pow(e));
                        if v > lo && v <= hi {
                            let sa = if a <= 5 { a } else { 6 + a % 6 };
                            let sb = if b <= 3 { b } else { 4 + b % 2 + if b > 7 { 2 } else { 0 } };
                            let key = (sa, sb, c.min(1), d.min(1), e.min(1));
                            let e1 = sig_min.entry(key).or_insert(v);
                            if v < *e1 {
                                *e1 = v;
                            }
                            let e2 = sig_max.entry(key).or_insert(v);
                            if v > *e2 {
                                *e2 = v;
                            }
                        }
                    }
                }
            }
            v3 = v3.saturating_mul(3);
            b += 1;
        }
        v2 = v2.saturating_mul(2);
        a += 1;
    }
    for (_, v) in sig_min {
        add(v, "11-smooth, smallest of its exponent signature");
    }
    for (_, v) in sig_max {
        add(v, "11-smooth, largest of its exponent signature");
    }
    // every power of two and 3 * 2^k
    let mut v = 1usize;
    while v <= hi {
        add(v, "power of two");
        add(v.saturating_mul(3), "3 * power of two");
        add(v.saturating_mul(9), "9 * power of two");
        v = v.saturating_mul(2);
    }
    // neighbours of literal thresholds in the planners
    for &t in &[992usize, 1000, 1024, 4096, 65536, 1 << 20] {
        for d in 0..=2usize {
            add(t + d, "near a literal planner threshold");
            add(t.saturating_sub(d), "near a literal planner threshold");
        }
    }
    m.into_iter().collect()
}

/// deterministic thinning: keep at most `max` elements, evenly spread, always keeping first and last
pub fn thin<T: Clone>(v: &[T], max: usize) -> Vec<T> {
    if v.len() <= max || max < 2 {
        return v.to_vec();
    }
    let mut out = Vec::with_capacity(max);
    for i in 0..max {
        let idx = i * (v.len() - 1) / (max - 1);
        out.push(v[idx].clone());
    }
    out
}

/// every prime in (lo, hi]: each one exercises the number-theoretic index maps of Rader's / Bluestein's algorithm
pub fn primes_between(lo: usize, hi: usize) -> Vec<usize> {
    ((lo + 1)..=hi).filter(|&n| is_prime(n as u64)).collect()
}

/// Lengths just above 2^16 and towards 2^20, one of every plan class: 16-bit index arithmetic (u16/u32 products such
/// as i*i, gather indexes, quotient estimates) silently changes behaviour there, and nothing below 65536 can see it.
/// Quick: one prime per class right above 2^16, one composite over a Bluestein prime, two Rader primes far above.
pub fn beyond_u16(thorough: bool) -> Vec<(usize, &'static str)> {
    let mut v: Vec<(usize, &'static str)> = vec![
        (65537, "prime > 2^16: p-1 = 2^16 (Rader everywhere)"),
        (65539, "prime > 2^16: p-1 has a large factor (Bluestein everywhere)"),
        (65551, "prime > 2^16: p-1 is 23-smooth (Rader in scalar/SSE)"),
        (2 * 65539, "2 x Bluestein prime > 2^16"),
        (147457, "prime 9*2^14+1 (Rader)"),
        (786433, "prime 3*2^18+1 (Rader, far above 2^16)"),
    ];
    if thorough {
        v.extend_from_slice(&[
            (66529, "prime > 2^16: p-1 is 11-smooth"),
            (131101, "prime > 2^17: p-1 is 23-smooth"),
            (131111, "prime > 2^17: Bluestein"),
            (139969, "prime > 2^17: p-1 is 3-smooth"),
            (3 * 65539, "3 x Bluestein prime"),
            (262147, "prime > 2^18: Bluestein"),
            (331777, "prime > 2^18: p-1 is 3-smooth"),
            (524309, "prime > 2^19: Bluestein"),
            (629857, "prime > 2^19: p-1 is 3-smooth"),
            (66049, "257^2 = 66049 (prime square > 2^16)"),
            (1048583, "prime > 2^20: Bluestein"),
            (1179649, "prime 9*2^17+1 (Rader)"),
        ]);
    }
    v
}
