//! Shared vocabulary: element types, planner kinds, entry points, running one call under catch_unwind.
use num_complex::Complex;
use num_traits::Zero;
use rustfft::{Fft, FftDirection, FftNum, FftPlanner, FftPlannerAvx, FftPlannerScalar, FftPlannerSse};
use std::panic::{catch_unwind, AssertUnwindSafe};
use std::sync::Arc;

pub type C<T> = Complex<T>;

/// f32 / f64 as seen by the float-layer oracles
pub trait Real: FftNum + PartialOrd + std::fmt::Display {
    const NAME: &'static str;
    const EPS: f64;
    const HUGE: f64;
    fn to64(self) -> f64;
    fn from64(x: f64) -> Self;
    fn bits(self) -> u64;
    fn from_bits64(b: u64) -> Self;
}
impl Real for f32 {
    const NAME: &'static str = "f32";
    const EPS: f64 = 1.1920928955078125e-7; // 2^-23
    const HUGE: f64 = 1e30;
    fn to64(self) -> f64 {
        self as f64
    }
    fn from64(x: f64) -> f32 {
        x as f32
    }
    fn bits(self) -> u64 {
        self.to_bits() as u64
    }
    fn from_bits64(b: u64) -> f32 {
        f32::from_bits(b as u32)
    }
}
impl Real for f64 {
    const NAME: &'static str = "f64";
    const EPS: f64 = 2.220446049250313e-16; // 2^-52
    const HUGE: f64 = 1e300;
    fn to64(self) -> f64 {
        self
    }
    fn from64(x: f64) -> f64 {
        x
    }
    fn bits(self) -> u64 {
        self.to_bits()
    }
    fn from_bits64(b: u64) -> f64 {
        f64::from_bits(b)
    }
}

/// The C02 bound B(n) = 16 * eps * log2(2n)
pub fn bound<T: Real>(n: usize) -> f64 {
    16.0 * T::EPS * crate::util::log2(2.0 * (n.max(1) as f64))
}

#[derive(Copy, Clone, Debug, PartialEq, Eq, Hash, PartialOrd, Ord)]
pub enum PK {
    Auto,
    Scalar,
    Sse,
    Avx,
    /// not a planner: a fixed hand-assembled composite per length (see `hand_build`), so that the per-property sweeps
    /// also run on transforms no planner produces (C08/C09/C07 quantify over "every transform")
    Hand,
}
impl PK {
    pub const ALL: [PK; 4] = [PK::Auto, PK::Scalar, PK::Sse, PK::Avx];
    pub const DISTINCT: [PK; 3] = [PK::Scalar, PK::Sse, PK::Avx];
    pub fn name(self) -> &'static str {
        match self {
            PK::Auto => "auto",
            PK::Scalar => "scalar",
            PK::Sse => "sse",
            PK::Avx => "avx",
            PK::Hand => "handbuilt",
        }
    }
    pub fn parse(s: &str) -> Option<PK> {
        if s == "handbuilt" {
            return Some(PK::Hand);
        }
        PK::ALL.iter().copied().find(|p| p.name() == s)
    }
}

pub fn dir_name(d: FftDirection) -> &'static str {
    match d {
        FftDirection::Forward => "fwd",
        FftDirection::Inverse => "inv",
    }
}
pub fn parse_dir(s: &str) -> Option<FftDirection> {
    match s {
        "fwd" => Some(FftDirection::Forward),
        "inv" => Some(FftDirection::Inverse),
        _ => None,
    }
}
pub const DIRS: [FftDirection; 2] = [FftDirection::Forward, FftDirection::Inverse];

pub enum AnyPlanner<T: FftNum> {
    Auto(FftPlanner<T>),
    Scalar(FftPlannerScalar<T>),
    Sse(FftPlannerSse<T>),
    Avx(FftPlannerAvx<T>),
    Hand,
}

/// lengths for which `hand_build` knows a composite
pub const HAND_LENS: [usize; 11] = [59, 83, 111, 118, 167, 177, 236, 359, 501, 61, 1436];
/// One hand-assembled composite per length, chosen so that inner transforms need MORE in-place scratch than their own
/// length (a planner-built transform that contains Bluestein's algorithm), sit at the second nesting level, or are
/// wrapped by the constructors the planners never use that way.
pub fn hand_build<T: FftNum>(n: usize, d: FftDirection) -> Arc<dyn Fft<T>> {
    use rustfft::algorithm::butterflies::{Butterfly2, Butterfly3};
    use rustfft::algorithm::*;
    let planned = |m: usize| -> Arc<dyn Fft<T>> { FftPlannerScalar::<T>::new().plan_fft(m, d) };
    match n {
        59 => Arc::new(BluesteinsAlgorithm::new(59, planned(128))),
        83 => Arc::new(BluesteinsAlgorithm::new(83, planned(166))), // inner = 2 x (Bluestein prime 83)
        111 => Arc::new(Radix3::new_with_base(1, planned(37))),
        118 => Arc::new(MixedRadix::new(planned(59), Arc::new(Butterfly2::new(d)))),
        167 => Arc::new(RadersAlgorithm::new(planned(166))), // inner needs more scratch than its length
        177 => Arc::new(GoodThomasAlgorithm::new(planned(59), Arc::new(Butterfly3::new(d)))),
        236 => Arc::new(Radix4::new_with_base(1, planned(59))),
        359 => Arc::new(RadersAlgorithm::new(planned(358))),
        501 => Arc::new(MixedRadix::new(Arc::new(RadersAlgorithm::new(planned(166))), Arc::new(Butterfly3::new(d)))),
        61 => Arc::new(RadersAlgorithm::new(planned(60))),
        1436 => Arc::new(GoodThomasAlgorithm::new(Arc::new(RadersAlgorithm::new(planned(358))), planned(4))),
        _ => panic!("harness: no hand-built composite of length {}", n),
    }
}
impl<T: FftNum> AnyPlanner<T> {
    /// None when the dedicated SIMD planner declines (Err)
    pub fn new(pk: PK) -> Option<Self> {
        match pk {
            PK::Auto => Some(AnyPlanner::Auto(FftPlanner::new())),
            PK::Scalar => Some(AnyPlanner::Scalar(FftPlannerScalar::new())),
            PK::Sse => FftPlannerSse::new().ok().map(AnyPlanner::Sse),
            PK::Avx => FftPlannerAvx::new().ok().map(AnyPlanner::Avx),
            PK::Hand => Some(AnyPlanner::Hand),
        }
    }
    pub fn plan(&mut self, n: usize, d: FftDirection) -> Arc<dyn Fft<T>> {
        match self {
            AnyPlanner::Auto(p) => p.plan_fft(n, d),
            AnyPlanner::Scalar(p) => p.plan_fft(n, d),
            AnyPlanner::Sse(p) => p.plan_fft(n, d),
            AnyPlanner::Avx(p) => p.plan_fft(n, d),
            AnyPlanner::Hand => hand_build::<T>(n, d),
        }
    }
    /// plan through the plan_fft_forward / plan_fft_inverse convenience methods
    pub fn plan_conv(&mut self, n: usize, d: FftDirection) -> Arc<dyn Fft<T>> {
        match (self, d) {
            (AnyPlanner::Hand, _) => hand_build::<T>(n, d),
            (AnyPlanner::Auto(p), FftDirection::Forward) => p.plan_fft_forward(n),
            (AnyPlanner::Auto(p), FftDirection::Inverse) => p.plan_fft_inverse(n),
            (AnyPlanner::Scalar(p), FftDirection::Forward) => p.plan_fft_forward(n),
            (AnyPlanner::Scalar(p), FftDirection::Inverse) => p.plan_fft_inverse(n),
            (AnyPlanner::Sse(p), FftDirection::Forward) => p.plan_fft_forward(n),
            (AnyPlanner::Sse(p), FftDirection::Inverse) => p.plan_fft_inverse(n),
            (AnyPlanner::Avx(p), FftDirection::Forward) => p.plan_fft_forward(n),
            (AnyPlanner::Avx(p), FftDirection::Inverse) => p.plan_fft_inverse(n),
        }
    }
    /// Plan as text without constructing (hook H4). None for the automatic planner and for stub planners.
    #[allow(unused_variables)]
    pub fn plan_only(&mut self, n: usize, d: FftDirection) -> Option<String> {
        match self {
            AnyPlanner::Auto(_) | AnyPlanner::Hand => None,
            AnyPlanner::Scalar(p) => Some(p.verif_plan_only(n, d)),
            #[cfg(feature = "sse")]
            AnyPlanner::Sse(p) => Some(p.verif_plan_only(n, d)),
            #[cfg(feature = "avx")]
            AnyPlanner::Avx(p) => Some(p.verif_plan_only(n, d)),
            #[allow(unreachable_patterns)]
            _ => None,
        }
    }
    pub fn cache_keys(&self) -> Option<Vec<(usize, FftDirection)>> {
        match self {
            AnyPlanner::Auto(_) | AnyPlanner::Hand => None,
            AnyPlanner::Scalar(p) => Some(p.verif_cache_keys()),
            #[cfg(feature = "sse")]
            AnyPlanner::Sse(p) => Some(p.verif_cache_keys()),
            #[cfg(feature = "avx")]
            AnyPlanner::Avx(p) => Some(p.verif_cache_keys()),
            #[allow(unreachable_patterns)]
            _ => None,
        }
    }
}

#[derive(Copy, Clone, Debug, PartialEq, Eq, Hash, PartialOrd, Ord)]
pub enum Entry {
    Process,
    InPlace,
    OutOfPlace,
    Immut,
}
impl Entry {
    pub const ALL: [Entry; 4] = [Entry::Process, Entry::InPlace, Entry::OutOfPlace, Entry::Immut];
    pub const EXPLICIT: [Entry; 3] = [Entry::InPlace, Entry::OutOfPlace, Entry::Immut];
    pub fn name(self) -> &'static str {
        match self {
            Entry::Process => "process",
            Entry::InPlace => "inplace",
            Entry::OutOfPlace => "outofplace",
            Entry::Immut => "immut",
        }
    }
    pub fn parse(s: &str) -> Option<Entry> {
        Entry::ALL.iter().copied().find(|p| p.name() == s)
    }
    pub fn scratch_len<T: FftNum>(self, fft: &dyn Fft<T>) -> usize {
        match self {
            Entry::Process => 0,
            Entry::InPlace => fft.get_inplace_scratch_len(),
            Entry::OutOfPlace => fft.get_outofplace_scratch_len(),
            Entry::Immut => fft.get_immutable_scratch_len(),
        }
    }
    pub fn has_output(self) -> bool {
        matches!(self, Entry::OutOfPlace | Entry::Immut)
    }
}

/// What one call left behind
pub struct CallOut<T> {
    /// the transformed data (buffer for in-place entries, output otherwise); None if the call panicked
    pub out: Option<Vec<C<T>>>,
    /// the input buffer after the call (for immut: must equal the input)
    pub input_after: Vec<C<T>>,
    pub panic_msg: Option<String>,
}

/// Runs `fft` through `entry` on `data` (k chunks back to back). `out_init` / `scratch` give the initial content
/// (and thereby the lengths) of the output and scratch buffers; both are ignored where the entry has none.
pub fn call<T: FftNum>(fft: &dyn Fft<T>, entry: Entry, data: &[C<T>], out_init: &[C<T>], scratch: &[C<T>]) -> CallOut<T> {
    let mut input = data.to_vec();
    let mut out = out_init.to_vec();
    let mut scr = scratch.to_vec();
    let r = catch_unwind(AssertUnwindSafe(|| match entry {
        Entry::Process => fft.process(&mut input),
        Entry::InPlace => fft.process_with_scratch(&mut input, &mut scr),
        Entry::OutOfPlace => fft.process_outofplace_with_scratch(&mut input, &mut out, &mut scr),
        Entry::Immut => fft.process_immutable_with_scratch(&input, &mut out, &mut scr),
    }));
    match r {
        Ok(()) => {
            let res = if entry.has_output() { out } else { input.clone() };
            CallOut { out: Some(res), input_after: input, panic_msg: None }
        }
        Err(e) => CallOut { out: None, input_after: input, panic_msg: Some(panic_text(&e)) },
    }
}

/// The plain well-shaped call: zeroed output, zeroed scratch of exactly the advertised length.
pub fn call_plain<T: FftNum>(fft: &dyn Fft<T>, entry: Entry, data: &[C<T>]) -> CallOut<T> {
    let z = C::<T>::zero();
    let out = if entry.has_output() { vec![z; data.len()] } else { Vec::new() };
    let scr = vec![z; entry.scratch_len(fft)];
    call(fft, entry, data, &out, &scr)
}

pub fn panic_text(e: &Box<dyn std::any::Any + Send>) -> String {
    if let Some(s) = e.downcast_ref::<&str>() {
        s.to_string()
    } else if let Some(s) = e.downcast_ref::<String>() {
        s.clone()
    } else {
        "<non-string panic>".to_string()
    }
}

/// Silence the default panic hook (expected panics are part of several checks); the message is still
/// available from catch_unwind. Set VERIF_PANIC_TRACE=1 to keep the default hook.
pub fn quiet_panics() {
    if std::env::var("VERIF_PANIC_TRACE").is_err() {
        std::panic::set_hook(Box::new(|info| {
            // panics raised by the harness's own code are machinery errors and must be visible
            if let Some(loc) = info.location() {
                if loc.file().starts_with("src/") {
                    eprintln!("MACHINERY-ERROR: harness panic at {}:{}: {}", loc.file(), loc.line(), info);
                }
            }
        }));
    }
}

pub fn plan_catch<T: FftNum>(pl: &mut AnyPlanner<T>, n: usize, d: FftDirection) -> Result<Arc<dyn Fft<T>>, String> {
    catch_unwind(AssertUnwindSafe(|| pl.plan(n, d))).map_err(|e| panic_text(&e))
}

pub fn bits_of<T: Real>(v: &[C<T>]) -> Vec<(u64, u64)> {
    v.iter().map(|c| (c.re.bits(), c.im.bits())).collect()
}
pub fn same_bits<T: Real>(a: &[C<T>], b: &[C<T>]) -> bool {
    a.len() == b.len() && a.iter().zip(b).all(|(x, y)| x.re.bits() == y.re.bits() && x.im.bits() == y.im.bits())
}
pub fn hash_bits<T: Real>(h: u64, v: &[C<T>]) -> u64 {
    let mut h = h;
    for c in v {
        h = crate::util::fnv_u64(h, c.re.bits());
        h = crate::util::fnv_u64(h, c.im.bits());
    }
    h
}
pub fn to_c64<T: Real>(v: &[C<T>]) -> Vec<C<f64>> {
    v.iter().map(|c| C::new(c.re.to64(), c.im.to64())).collect()
}
pub fn from_c64<T: Real>(v: &[C<f64>]) -> Vec<C<T>> {
    v.iter().map(|c| C::new(T::from64(c.re), T::from64(c.im))).collect()
}

/// One fresh planner per (kind, n); both directions planned on it. Planning panics are reported through `on_panic`.
pub fn instances<T: FftNum>(n: usize, planners: &[PK], mut on_panic: impl FnMut(PK, FftDirection, String)) -> Vec<(PK, FftDirection, Arc<dyn Fft<T>>)> {
    let mut v = Vec::new();
    for &pk in planners {
        let mut pl = match AnyPlanner::<T>::new(pk) {
            Some(p) => p,
            None => continue,
        };
        for d in DIRS {
            match plan_catch(&mut pl, n, d) {
                Ok(f) => v.push((pk, d, f)),
                Err(m) => on_panic(pk, d, m),
            }
        }
    }
    v
}

/// deterministic dense vector of length n (values in [-1,1)), distinct per salt
pub fn dense_vec<T: Real>(n: usize, salt: u64) -> Vec<C<T>> {
    let mut r = crate::util::Rng::new(0xD1CE ^ salt.wrapping_mul(0x9E3779B97F4A7C15) ^ (n as u64) << 20);
    (0..n).map(|_| C::new(T::from64(r.sym()), T::from64(r.sym()))).collect()
}

pub fn l2<T: Real>(v: &[C<T>]) -> f64 {
    crate::refdft::norm2(&to_c64(v))
}
pub fn l2_diff<T: Real>(a: &[C<T>], b: &[C<T>]) -> f64 {
    let d: Vec<C<f64>> = a.iter().zip(b).map(|(x, y)| C::new(x.re.to64() - y.re.to64(), x.im.to64() - y.im.to64())).collect();
    crate::refdft::norm2(&d)
}
pub fn finite<T: Real>(v: &[C<T>]) -> bool {
    v.iter().all(|c| c.re.to64().is_finite() && c.im.to64().is_finite())
}

/// run a generic function for both float types
#[macro_export]
macro_rules! both_types {
    ($f:ident ( $($arg:expr),* )) => {{
        $f::<f32>($($arg),*);
        $f::<f64>($($arg),*);
    }};
}
