//! C04: every planner plans every length, reporting the right length and direction;
//! a length-0 transform accepts an empty buffer, a length-1 transform is the identity.
use crate::core::*;
use crate::framework::{finalize, parse_key, Ctx, Report};
use crate::lens;
use crate::planparse::{self, AvxBase, Val};
use crate::util::{par_map, Json};
use rustfft::FftDirection;
use std::collections::{BTreeMap, BTreeSet};
use std::panic::{catch_unwind, AssertUnwindSafe};

fn key(pk: PK, ty: &str, d: FftDirection, n: usize, what: &str) -> String {
    format!("C04|pk={}|T={}|dir={}|n={}|what={}", pk.name(), ty, dir_name(d), n, what)
}

/// construct and interrogate (n, all planners, both directions) for one element type
pub fn construct_one<T: Real>(n: usize, planners: &[PK], rep: &mut Report, extra: &str) {
    for &pk in planners {
        for conv in [false, true] {
            let mut pl = match AnyPlanner::<T>::new(pk) {
                Some(p) => p,
                None => continue,
            };
            for d in DIRS {
                let r = catch_unwind(AssertUnwindSafe(|| if conv { pl.plan_conv(n, d) } else { pl.plan(n, d) }));
                rep.evaluations += 1;
                rep.transitions += 1;
                if n >= 2 {
                    rep.distinct_nontrivial += 1;
                }
                let f = match r {
                    Ok(f) => f,
                    Err(e) => {
                        rep.violate(format!("{}{}", key(pk, T::NAME, d, n, if conv { "plan_conv" } else { "plan" }), extra), format!("planning panicked: {}", panic_text(&e)), Json::Null);
                        continue;
                    }
                };
                if f.len() != n || f.fft_direction() != d {
                    rep.violate(
                        format!("{}{}", key(pk, T::NAME, d, n, "report"), extra),
                        format!("requested (len {}, {}) but the transform reports (len {}, {})", n, dir_name(d), f.len(), dir_name(f.fft_direction())),
                        Json::Null,
                    );
                    continue;
                }
                rep.states += 1;
                if conv {
                    continue;
                }
                if n == 0 {
                    for e in Entry::ALL {
                        let co = call_plain::<T>(f.as_ref(), e, &[]);
                        rep.evaluations += 1;
                        if co.out.is_none() {
                            rep.violate(format!("{}{}", key(pk, T::NAME, d, 0, &format!("empty:{}", e.name())), extra), format!("length-0 transform rejected an empty buffer: {}", co.panic_msg.unwrap_or_default()), Json::Null);
                        }
                    }
                }
                if n == 1 {
                    let vals = [C::new(0.0, 0.0), C::new(1.0, 0.0), C::new(-2.5, 0.75), C::new(1e-20, -3e10), C::new(0.3, -0.1)];
                    for (vi, v) in vals.iter().enumerate() {
                        let x = vec![C::new(T::from64(v.re), T::from64(v.im))];
                        for e in Entry::ALL {
                            let co = call_plain::<T>(f.as_ref(), e, &x);
                            rep.evaluations += 1;
                            match co.out {
                                // numeric equality: the naive length-1 DFT may turn -0.0 into +0.0, still the identity map on values
                                Some(o) if o.len() == 1 && o[0].re == x[0].re && o[0].im == x[0].im => {}
                                Some(o) => rep.violate(format!("{}{}", key(pk, T::NAME, d, 1, &format!("identity:{}:{}", e.name(), vi)), extra), format!("length-1 transform is not the identity: {:?} -> {:?}", x[0], o.get(0)), Json::Null),
                                None => rep.violate(format!("{}{}", key(pk, T::NAME, d, 1, &format!("identity:{}:{}", e.name(), vi)), extra), format!("length-1 transform panicked: {}", co.panic_msg.unwrap_or_default()), Json::Null),
                            }
                        }
                    }
                }
            }
        }
    }
}

/// plan-only verification for one (planner kind, element type) over a block of lengths
fn plan_only_block<T: Real>(pk: PK, lo: usize, hi: usize, rep: &mut Report, census: &mut BTreeMap<String, u64>, bases: &mut BTreeSet<u64>, max_dft: &mut u64) {
    let mut pl = match AnyPlanner::<T>::new(pk) {
        Some(p) => p,
        None => return,
    };
    let mut verified_inner: BTreeSet<usize> = BTreeSet::new();
    for n in lo..hi {
        // the plan does not depend on the direction for an empty cache; alternate to exercise both arguments
        let d = if n % 2 == 0 { FftDirection::Forward } else { FftDirection::Inverse };
        let mut todo = vec![n];
        while let Some(m) = todo.pop() {
            let r = catch_unwind(AssertUnwindSafe(|| pl.plan_only(m, d)));
            rep.evaluations += 1;
            rep.transitions += 1;
            if m >= 2 {
                rep.distinct_nontrivial += 1;
            }
            let s = match r {
                Ok(Some(s)) => s,
                Ok(None) => return,
                Err(e) => {
                    rep.violate(key(pk, T::NAME, d, n, &format!("plan_only:{}", m)), format!("planning panicked for length {} (reached from {}): {}", m, n, panic_text(&e)), Json::Null);
                    continue;
                }
            };
            if pk == PK::Avx {
                match planparse::parse_avx(&s) {
                    Ok(p) => {
                        if p.len != m as u64 {
                            rep.violate(key(pk, T::NAME, d, n, &format!("plan_only:{}", m)), format!("plan for {} has length {}: {}", m, p.len, s), Json::Null);
                        }
                        *census.entry(format!("avx:{}", match p.base { AvxBase::Butterfly(_) => "ButterflyBase", AvxBase::Raders(_) => "RadersBase", AvxBase::Bluesteins(..) => "BluesteinsBase", AvxBase::Cache(_) => "CacheBase" })).or_insert(0) += 1;
                        match p.base {
                            AvxBase::Butterfly(b) => {
                                bases.insert(b);
                            }
                            AvxBase::Raders(q) => {
                                if !crate::util::is_prime(q) {
                                    rep.violate(key(pk, T::NAME, d, n, &format!("plan_only:{}", m)), format!("Rader base {} is not prime: {}", q, s), Json::Null);
                                }
                                if verified_inner.insert(q as usize - 1) {
                                    todo.push(q as usize - 1);
                                }
                            }
                            AvxBase::Bluesteins(q, inner) => {
                                if inner < 2 * q - 1 {
                                    rep.violate(key(pk, T::NAME, d, n, &format!("plan_only:{}", m)), format!("Bluestein inner length {} < 2*{}-1: {}", inner, q, s), Json::Null);
                                }
                                if verified_inner.insert(inner as usize) {
                                    todo.push(inner as usize);
                                }
                            }
                            AvxBase::Cache(_) => {
                                rep.violate(key(pk, T::NAME, d, n, &format!("plan_only:{}", m)), format!("cache base on an empty cache: {}", s), Json::Null);
                            }
                        }
                    }
                    Err(e) => rep.violate(key(pk, T::NAME, d, n, &format!("plan_only:{}", m)), format!("inconsistent plan for {}: {} ({})", m, e, s), Json::Null),
                }
            } else {
                match planparse::parse(&s) {
                    Ok(v) => {
                        planparse::census(&v, census);
                        *max_dft = (*max_dft).max(planparse::max_dft(&v));
                        match &v {
                            Val::Node(node) => match planparse::recipe_len(node) {
                                Ok(l) if l == m as u64 => {}
                                Ok(l) => rep.violate(key(pk, T::NAME, d, n, &format!("plan_only:{}", m)), format!("recipe for {} multiplies out to {}: {}", m, l, s), Json::Null),
                                Err(e) => rep.machinery_errors.push(format!("cannot evaluate recipe for {}: {} ({})", m, e, s)),
                            },
                            _ => rep.machinery_errors.push(format!("recipe is not a node: {}", s)),
                        }
                    }
                    Err(e) => rep.machinery_errors.push(format!("cannot parse recipe text: {} ({})", e, s)),
                }
            }
        }
    }
}

/// one planner, every n in 0..=nmax in ascending or descending order, both directions

/// Huge lengths on ONE planner with drops in between: plan, drop every handle, plan the same request again, plan the
/// other direction, plan a multiple. len()/direction must echo every request and nothing may panic (caches that hold
/// large instances differently from small ones only show here).
fn huge_replan<T: Real>(pk: PK, n: usize, rep: &mut Report) {
    let mut pl = match AnyPlanner::<T>::new(pk) {
        Some(p) => p,
        None => return,
    };
    let steps: Vec<(usize, FftDirection)> = vec![(n, FftDirection::Forward), (n, FftDirection::Forward), (n, FftDirection::Inverse), (n / 2, FftDirection::Forward), (n, FftDirection::Inverse), (n, FftDirection::Forward)];
    for (i, &(m, d)) in steps.iter().enumerate() {
        let k = format!("{}|history=huge-replan-after-drop|step={}", key(pk, T::NAME, d, m, "huge_replan"), i);
        rep.evaluations += 1;
        rep.transitions += 1;
        rep.distinct_nontrivial += 1;
        match plan_catch(&mut pl, m, d) {
            Err(msg) => rep.violate(k, format!("step {} of [plan {n} fwd, drop, plan {n} fwd, drop, plan {n} inv, drop, plan {h} fwd, drop, plan {n} inv, drop, plan {n} fwd] panicked: {}", i, msg, n = n, h = n / 2), Json::Null),
            Ok(f) => {
                if f.len() != m || f.fft_direction() != d {
                    rep.violate(k, format!("requested (len {}, {}) after dropping every earlier handle, but the transform reports (len {}, {})", m, dir_name(d), f.len(), dir_name(f.fft_direction())), Json::Null);
                }
                drop(f); // no handle survives the step: only the planner's own cache may keep the instance alive
            }
        }
    }
    rep.states += 1;
}

fn shared_sweep<T: Real>(pk: PK, nmax: usize, ascending: bool, rep: &mut Report) {
    let mut pl = match AnyPlanner::<T>::new(pk) {
        Some(p) => p,
        None => return,
    };
    let order: Vec<usize> = if ascending { (0..=nmax).collect() } else { (0..=nmax).rev().collect() };
    for n in order {
        for d in if n % 2 == 0 { [FftDirection::Forward, FftDirection::Inverse] } else { [FftDirection::Inverse, FftDirection::Forward] } {
            let r = catch_unwind(AssertUnwindSafe(|| pl.plan(n, d)));
            rep.evaluations += 1;
            rep.transitions += 1;
            if n >= 2 {
                rep.distinct_nontrivial += 1;
            }
            let k = format!("{}|sweep={}", key(pk, T::NAME, d, n, "shared_planner"), if ascending { "ascending" } else { "descending" });
            match r {
                Err(e) => rep.violate(k, format!("planning panicked on a planner that had already planned the {} lengths: {}", if ascending { "smaller" } else { "larger" }, panic_text(&e)), Json::Null),
                Ok(f) => {
                    if f.len() != n || f.fft_direction() != d {
                        rep.violate(k, format!("a planner that had already planned the {} lengths returned (len {}, {}) for the request (len {}, {})", if ascending { "smaller" } else { "larger" }, f.len(), dir_name(f.fft_direction()), n, dir_name(d)), Json::Null);
                    }
                }
            }
        }
    }
}

pub fn run(ctx: &Ctx) -> i32 {
    let t = ctx.tier;
    if let Some(r) = &ctx.replay {
        let k = r.get("key").and_then(|k| k.as_str()).unwrap_or("").to_string();
        let m = parse_key(&k);
        let n: usize = m.get("n").and_then(|s| s.parse().ok()).unwrap_or(0);
        let pk = PK::parse(m.get("pk").map(|s| s.as_str()).unwrap_or("auto")).unwrap_or(PK::Auto);
        let mut rep = Report::new();
        for _ in 0..2 {
            let mut r1 = Report::new();
            if m.get("what").map(|w| w == "shared_planner").unwrap_or(false) {
                let asc = m.get("sweep").map(|s| s == "ascending").unwrap_or(true);
                if m.get("T").map(|s| s.as_str()) == Some("f32") {
                    shared_sweep::<f32>(pk, if asc { n } else { 8192 }, asc, &mut r1);
                } else {
                    shared_sweep::<f64>(pk, if asc { n } else { 8192 }, asc, &mut r1);
                }
            } else if m.get("what").map(|w| w.starts_with("plan_only")).unwrap_or(false) {
                let (mut c, mut b, mut md) = (BTreeMap::new(), BTreeSet::new(), 0);
                if m.get("T").map(|s| s.as_str()) == Some("f32") {
                    plan_only_block::<f32>(pk, n, n + 1, &mut r1, &mut c, &mut b, &mut md);
                } else {
                    plan_only_block::<f64>(pk, n, n + 1, &mut r1, &mut c, &mut b, &mut md);
                }
            } else if m.get("T").map(|s| s.as_str()) == Some("f32") {
                construct_one::<f32>(n, &[pk], &mut r1, "");
            } else {
                construct_one::<f64>(n, &[pk], &mut r1, "");
            }
            println!("replay: {}", if r1.violations.is_empty() { "does not reproduce".to_string() } else { format!("reproduces: {}", r1.violations[0].what) });
            rep = r1;
        }
        rep.evaluations = rep.evaluations.max(2);
        rep.distinct_nontrivial = rep.distinct_nontrivial.max(2);
        rep.rule = "replay of one recorded case, run twice".into();
        rep.sample(Json::Str(k));
        std::env::set_var("VERIF_EVIDENCE_PART", "replay");
        return finalize(ctx, rep);
    }
    if let Some(n) = std::env::var("VERIF_C04_HUGE_ONLY").ok().and_then(|s| s.parse::<usize>().ok()) {
        // debugging aid: time the huge re-plan histories one after the other
        let mut r = Report::new();
        for pk in PK::DISTINCT {
            let t0 = std::time::Instant::now();
            huge_replan::<f32>(pk, n, &mut r);
            let t1 = t0.elapsed().as_secs_f64();
            huge_replan::<f64>(pk, n, &mut r);
            eprintln!("huge_replan {} n={}: f32 {:.1}s f64 {:.1}s", pk.name(), n, t1, t0.elapsed().as_secs_f64() - t1);
        }
        std::env::set_var("VERIF_EVIDENCE_PART", "debug");
        return finalize(ctx, r);
    }
    // ---- part A: construction, every n in 0..=N
    let nmax = t.pick(4096, 65536);
    let mut order: Vec<usize> = lens::dense(nmax);
    order.reverse();
    let parts = par_map(&order, |_, &n| {
        let mut r = Report::new();
        construct_one::<f32>(n, &PK::ALL, &mut r, "");
        construct_one::<f64>(n, &PK::ALL, &mut r, "");
        r
    });
    let mut rep = Report::new();
    for p in parts.into_iter().rev() {
        rep.merge(p);
    }
    let constructed = rep.states;
    // ---- part A': constructed pool of structured large n
    let pool = lens::thin(&lens::pool(nmax, t.pick(1 << 18, 1 << 21)), t.pick(40, 300));
    let pool_lens: Vec<usize> = pool.iter().map(|x| x.0).rev().collect();
    let parts = par_map(&pool_lens, |_, &n| {
        let mut r = Report::new();
        construct_one::<f32>(n, &PK::DISTINCT, &mut r, "");
        construct_one::<f64>(n, &PK::DISTINCT, &mut r, "");
        r
    });
    for p in parts.into_iter().rev() {
        rep.merge(p);
    }
    // ---- part A'': ONE planner for a whole sweep (ascending, descending): len()/direction must still echo every request
    let shared_n = t.pick(2048, 8192);
    let mut sjobs: Vec<(PK, bool, bool)> = Vec::new();
    for pk in PK::DISTINCT {
        for is32 in [true, false] {
            for asc in [true, false] {
                sjobs.push((pk, is32, asc));
            }
        }
    }
    let parts = par_map(&sjobs, |_, &(pk, is32, asc)| {
        let mut r = Report::new();
        if is32 {
            shared_sweep::<f32>(pk, shared_n, asc, &mut r);
        } else {
            shared_sweep::<f64>(pk, shared_n, asc, &mut r);
        }
        r
    });
    for p in parts {
        rep.merge(p);
    }
    // ---- part A3: huge lengths, re-planned after every handle was dropped
    let huge: Vec<usize> = t.pick(vec![1 << 21, 1 << 23], vec![1 << 21, 3 << 21, 1 << 23, 5 << 21, 1 << 24]);
    // one job per LENGTH (planners and types one after the other): many threads mapping and unmapping blocks of 64 MiB
    // and more at the same time spend their time in the kernel
    let parts = par_map(&huge, |_, &n| {
        let mut r = Report::new();
        for pk in PK::DISTINCT {
            huge_replan::<f32>(pk, n, &mut r);
            huge_replan::<f64>(pk, n, &mut r);
        }
        r
    });
    for p in parts {
        rep.merge(p);
    }
    rep.set("huge_replan_lengths", Json::Arr(huge.iter().map(|x| Json::Int(*x as i64)).collect()));
    // ---- part B: plan-only sweep
    let pmax: usize = t.pick(1 << 20, 1 << 22);
    let block = 8192;
    let mut blocks: Vec<(PK, bool, usize)> = Vec::new();
    for pk in PK::DISTINCT {
        for f32_ in [true, false] {
            let mut lo = 0;
            while lo < pmax {
                blocks.push((pk, f32_, lo));
                lo += block;
            }
        }
    }
    let results = par_map(&blocks, |_, &(pk, is32, lo)| {
        let mut r = Report::new();
        let mut census = BTreeMap::new();
        let mut bases = BTreeSet::new();
        let mut md = 0u64;
        if is32 {
            plan_only_block::<f32>(pk, lo, (lo + block).min(pmax), &mut r, &mut census, &mut bases, &mut md);
        } else {
            plan_only_block::<f64>(pk, lo, (lo + block).min(pmax), &mut r, &mut census, &mut bases, &mut md);
        }
        (r, census, bases, md, is32)
    });
    let mut census: BTreeMap<String, u64> = BTreeMap::new();
    let mut bases32: BTreeSet<u64> = BTreeSet::new();
    let mut bases64: BTreeSet<u64> = BTreeSet::new();
    let mut plan_only_evals = 0;
    for (r, c, b, _md, is32) in results {
        plan_only_evals += r.evaluations;
        rep.merge(r);
        for (k, v) in c {
            *census.entry(k).or_insert(0) += v;
        }
        if is32 {
            bases32.extend(b);
        } else {
            bases64.extend(b);
        }
    }
    // bind the plan-only world to the code: every butterfly base a plan names must be constructible
    for (is32, bases) in [(true, &bases32), (false, &bases64)] {
        for &b in bases.iter() {
            let mut r = Report::new();
            if is32 {
                construct_one::<f32>(b as usize, &[PK::Avx], &mut r, "|via=plan_only_base");
            } else {
                construct_one::<f64>(b as usize, &[PK::Avx], &mut r, "|via=plan_only_base");
            }
            rep.merge(r);
        }
    }
    rep.set("constructed_instances_dense", constructed);
    rep.set("plan_only_evaluations", plan_only_evals);
    rep.set("plan_only_max_n", pmax);
    rep.set("avx_butterfly_bases_f32", Json::Arr(bases32.iter().map(|b| Json::Int(*b as i64)).collect()));
    rep.set("avx_butterfly_bases_f64", Json::Arr(bases64.iter().map(|b| Json::Int(*b as i64)).collect()));
    rep.set("plan_node_census", Json::Obj(census.into_iter().map(|(k, v)| (k, Json::Int(v as i64))).collect()));
    rep.set("pool_lengths_constructed", Json::Arr(pool.iter().map(|x| Json::Int(x.0 as i64)).collect()));
    rep.sample(Json::Str(key(PK::Avx, "f32", FftDirection::Forward, 1184, "plan")));
    rep.sample(Json::Str(key(PK::Scalar, "f64", FftDirection::Inverse, nmax, "plan_conv")));
    rep.sample(Json::Str(key(PK::Sse, "f64", FftDirection::Inverse, pmax - 1, "plan_only")));
    rep.rule = format!(
        "huge lengths (2^21, 2^23; thorough 2^21..2^24) on one planner with every handle dropped between requests: plan, drop, plan again, other direction, half length, again; shared-planner sweeps: one planner per (scalar/sse/avx, f32/f64) asked for every n in 0..={sh} in ascending and in descending order, both directions; construction: planners {{auto,scalar,sse,avx}} x {{f32,f64}} x {{fwd,inv}} x {{plan_fft, plan_fft_forward/inverse}} x every n in 0..={nmax} on a fresh planner (len() and fft_direction() must echo the request; n=0 accepts the empty buffer through all 4 entry points; n=1 is the identity on 5 values through all 4 entry points), plus {pl} computed pool lengths up to {ph}; plan-only (hook H4, nothing constructed): {{scalar,sse,avx}} x {{f32,f64}} x every n < {pmax}, following Rader (p-1) and Bluestein (inner) sub-plans, every plan must parse and multiply out to n and every AVX butterfly base named by a plan is then constructed once. Non-trivial: n >= 2.",
        sh = shared_n,
        nmax = nmax,
        pl = pool.len(),
        ph = t.pick(1 << 18, 1 << 21),
        pmax = pmax
    );
    rep.exhaustive = true;
    rep.assumptions = vec![
        "plan-only reports (hook H4) describe what construction would build; bound to the code by the constructed range 0..=N, where both are exercised".into(),
        "n above 2^22 (in particular the f32-square-root factoriser limit above 2^24) is out of reach of enumeration".into(),
    ];
    finalize(ctx, rep)
}
