//! C09: ill-shaped calls panic; well-shaped calls never do (and transform every chunk).
use crate::core::*;
use crate::framework::{finalize, parse_key, Ctx, Report};
use crate::util::{par_map, Json};
use rustfft::FftDirection;

#[derive(Copy, Clone, Debug, PartialEq)]
pub enum Expect {
    MustSucceed,
    MustPanic,
    Unspecified,
}

/// The documented contract as a pure predicate.
pub fn shape_model(n: usize, entry: Entry, data_len: usize, out_len: usize, scratch_len: usize, advertised: usize) -> Expect {
    if n == 0 || data_len == 0 {
        // the statement quantifies over non-empty data and over multiples of n; see DESIGN §3 C09
        return Expect::Unspecified;
    }
    let multiple = data_len % n == 0;
    let out_ok = !entry.has_output() || out_len == data_len;
    let scratch_ok = entry == Entry::Process || scratch_len >= advertised;
    if multiple && out_ok && scratch_ok {
        Expect::MustSucceed
    } else {
        Expect::MustPanic
    }
}

fn key(pk: PK, ty: &str, d: FftDirection, n: usize, e: Entry, dl: usize, ol: usize, sl: usize) -> String {
    format!("C09|pk={}|T={}|dir={}|n={}|entry={}|data={}|out={}|scratch={}", pk.name(), ty, dir_name(d), n, e.name(), dl, ol, sl)
}

pub fn data_lengths(n: usize) -> Vec<usize> {
    let mut v = vec![1, n.saturating_sub(1), n, n + 1, 2 * n - 1, 2 * n, 2 * n + 1, 3 * n - 1, 3 * n, 3 * n + 1, 4 * n - 1, 4 * n, 4 * n + 1];
    v.retain(|&x| x > 0);
    v.sort();
    v.dedup();
    v
}
pub fn out_lengths(dl: usize, n: usize) -> Vec<usize> {
    let mut v = vec![dl, dl + 1, dl + n];
    if dl >= 1 {
        v.push(dl - 1);
    }
    if dl >= n {
        v.push(dl - n);
    }
    v.sort();
    v.dedup();
    v
}
pub fn scratch_lengths(adv: usize) -> Vec<usize> {
    let mut v = vec![0, adv, adv + 1];
    if adv >= 1 {
        v.push(adv - 1);
    }
    v.sort();
    v.dedup();
    v
}

pub fn one_len<T: Real>(n: usize, planners: &[PK], rep: &mut Report, only: Option<(PK, FftDirection, Entry, usize, usize, usize)>) {
    if n == 0 {
        return;
    }
    let b = bound::<T>(n);
    let mut panics: Vec<(PK, FftDirection, String)> = Vec::new();
    let ffts = instances::<T>(n, planners, |pk, d, m| panics.push((pk, d, m)));
    for (pk, d, m) in panics {
        rep.violate(key(pk, T::NAME, d, n, Entry::Process, 0, 0, 0), format!("planning panicked: {}", m), Json::Null);
    }
    // long enough pseudo-random data; chunk i of any call starts at i*n of this vector
    let pool: Vec<C<T>> = dense_vec::<T>(4 * n + 2, 7);
    for (pk, d, f) in &ffts {
        rep.states += 1;
        for e in Entry::ALL {
            let adv = e.scratch_len(f.as_ref());
            // single-chunk results for the "every chunk is transformed" clause
            let alone: Vec<Option<Vec<C<T>>>> = (0..(4 * n + 1) / n).map(|i| call_plain(f.as_ref(), e, &pool[i * n..(i + 1) * n]).out).collect();
            for dl in data_lengths(n) {
                let outs = if e.has_output() { out_lengths(dl, n) } else { vec![dl] };
                for ol in outs {
                    let scrs = if e == Entry::Process { vec![0] } else { scratch_lengths(adv) };
                    for sl in scrs {
                        if let Some((opk, od, oe, odl, ool, osl)) = only {
                            if (opk, od, oe, odl, ool, osl) != (*pk, *d, e, dl, ol, sl) {
                                continue;
                            }
                        }
                        let expect = shape_model(n, e, dl, ol, sl, adv);
                        let data = &pool[..dl];
                        let z = C::new(T::from64(0.0), T::from64(0.0));
                        let out_init = if e.has_output() { vec![z; ol] } else { vec![] };
                        let scr = vec![z; sl];
                        let co = call(f.as_ref(), e, data, &out_init, &scr);
                        rep.evaluations += 1;
                        rep.transitions += 1;
                        if n >= 2 {
                            rep.distinct_nontrivial += 1;
                        }
                        match (expect, &co.out) {
                            (Expect::MustSucceed, None) => {
                                rep.violate(key(*pk, T::NAME, *d, n, e, dl, ol, sl), format!("well-shaped call panicked: {}", co.panic_msg.clone().unwrap_or_default()), Json::Null);
                            }
                            (Expect::MustSucceed, Some(o)) => {
                                for c in 0..dl / n {
                                    if let Some(a) = &alone[c] {
                                        let g = &o[c * n..(c + 1) * n];
                                        let dn = l2_diff(g, a);
                                        let tol = 2.0 * b * l2(a) * (1.0 + b);
                                        if !(dn <= tol) {
                                            rep.violate(key(*pk, T::NAME, *d, n, e, dl, ol, sl), format!("call returned normally but chunk {} of {} was not transformed (deviation {:e}, allowance {:e})", c, dl / n, dn, tol), Json::Null);
                                            break;
                                        }
                                    }
                                }
                            }
                            (Expect::MustPanic, Some(_)) => {
                                rep.violate(
                                    key(*pk, T::NAME, *d, n, e, dl, ol, sl),
                                    format!("ill-shaped call returned normally (n={}, data={}, output={}, scratch={} of advertised {})", n, dl, ol, sl, adv),
                                    Json::Null,
                                );
                            }
                            (Expect::MustPanic, None) => {}
                            (Expect::Unspecified, _) => {}
                        }
                    }
                }
            }
        }
    }
}

pub fn run(ctx: &Ctx) -> i32 {
    let t = ctx.tier;
    if let Some(r) = &ctx.replay {
        let k = r.get("key").and_then(|k| k.as_str()).unwrap_or("").to_string();
        let m = parse_key(&k);
        let g = |s: &str| -> usize { m.get(s).and_then(|x| x.parse().ok()).unwrap_or(0) };
        let n = g("n").max(1);
        let pk = PK::parse(m.get("pk").map(|s| s.as_str()).unwrap_or("auto")).unwrap_or(PK::Auto);
        let e = Entry::parse(m.get("entry").map(|s| s.as_str()).unwrap_or("inplace")).unwrap_or(Entry::InPlace);
        let d = parse_dir(m.get("dir").map(|s| s.as_str()).unwrap_or("fwd")).unwrap_or(FftDirection::Forward);
        let mut rep = Report::new();
        for _ in 0..2 {
            let mut r1 = Report::new();
            let only = Some((pk, d, e, g("data"), g("out"), g("scratch")));
            if m.get("T").map(|s| s.as_str()) == Some("f32") {
                one_len::<f32>(n, &[pk], &mut r1, only);
            } else {
                one_len::<f64>(n, &[pk], &mut r1, only);
            }
            println!("replay: {}", if r1.violations.is_empty() { "does not reproduce".to_string() } else { format!("reproduces: {}", r1.violations[0].what) });
            rep = r1;
        }
        rep.evaluations = rep.evaluations.max(2);
        rep.distinct_nontrivial = rep.distinct_nontrivial.max(2);
        rep.rule = "replay of one recorded case, run twice".into();
        rep.sample(Json::Str(k));
        std::env::set_var("VERIF_EVIDENCE_PART", "replay");
        return finalize(ctx, rep);
    }
    let nmax = t.pick(256, 1024);
    let l: Vec<usize> = (1..=nmax).rev().collect();
    let parts = par_map(&l, |_, &n| {
        let mut r = Report::new();
        one_len::<f32>(n, &PK::ALL, &mut r, None);
        one_len::<f64>(n, &PK::ALL, &mut r, None);
        r
    });
    let mut rep = Report::new();
    for p in parts.into_iter().rev() {
        rep.merge(p);
    }
    // hand-assembled composites (transforms no planner produces): the same product
    let hand: Vec<usize> = HAND_LENS.to_vec();
    let hparts = par_map(&hand, |_, &n| {
        let mut r = Report::new();
        one_len::<f32>(n, &[PK::Hand], &mut r, None);
        one_len::<f64>(n, &[PK::Hand], &mut r, None);
        r
    });
    for p in hparts {
        rep.merge(p);
    }
    rep.set("handbuilt_lengths", Json::Arr(hand.iter().map(|x| Json::Int(*x as i64)).collect()));
    // structured lengths above the dense range and lengths beyond 2^16: the same shape product, three distinct planners
    let thorough = t == crate::framework::Tier::Thorough;
    // (the product is ~1600 calls per planner, direction and type, each allocating its buffers: lengths stay below 2^18)
    let mut big: Vec<usize> = crate::lens::thin(&crate::lens::pool(nmax, t.pick(1 << 14, 1 << 16)), t.pick(24, 80)).iter().map(|x| x.0).collect();
    big.extend(crate::lens::beyond_u16(thorough).iter().map(|x| x.0).filter(|&n| n < 200_000));
    big.sort();
    big.dedup();
    big.reverse();
    let parts = par_map(&big, |_, &n| {
        let mut r = Report::new();
        one_len::<f32>(n, &PK::DISTINCT, &mut r, None);
        one_len::<f64>(n, &PK::DISTINCT, &mut r, None);
        r
    });
    for p in parts.into_iter().rev() {
        rep.merge(p);
    }
    rep.set("lengths_above_dense_range", Json::Arr(big.iter().map(|x| Json::Int(*x as i64)).collect()));
    // observation (not a verdict): what a length-0 transform does with a non-empty buffer
    let obs = {
        let mut pl = AnyPlanner::<f64>::new(PK::Auto).unwrap();
        let f = pl.plan(0, FftDirection::Forward);
        let data = vec![C::new(1.0f64, 2.0); 5];
        let co = call_plain(f.as_ref(), Entry::InPlace, &data);
        match co.out {
            Some(o) => format!("n=0 with a 5-element buffer returns normally, buffer {}", if same_bits(&o, &data) { "untouched" } else { "modified" }),
            None => "n=0 with a 5-element buffer panics".to_string(),
        }
    };
    rep.set("observation_len0_nonempty_buffer", obs);
    rep.sample(Json::Str(key(PK::Avx, "f32", FftDirection::Forward, 37, Entry::Immut, 73, 74, 36)));
    rep.sample(Json::Str(key(PK::Sse, "f64", FftDirection::Inverse, nmax, Entry::OutOfPlace, 2 * nmax, nmax, 0)));
    rep.rule = format!(
        "[also: one hand-assembled composite per length in handbuilt_lengths -- RadersAlgorithm / BluesteinsAlgorithm / MixedRadix / GoodThomasAlgorithm / Radix4 / Radix3::new_with_base over planner-built inner transforms that contain Bluestein's algorithm -- through the same product] planners x {{f32,f64}} x {{fwd,inv}} x every n in 1..={nm} (plus the structured and beyond-2^16 lengths listed under lengths_above_dense_range) x 4 entry points x data length in {{1, n-1, n, n+1, 2n-1, 2n, 2n+1, 3n+-1, 3n, 4n+-1, 4n}} x output length in {{=, +-1, +-n}} x scratch length in {{0, adv-1, adv, adv+1}}: the full product (about 200 shapes per instance and entry point); oracle: the documented contract as a predicate -- must-succeed shapes return and every chunk equals the single-chunk result within 2B, must-panic shapes unwind and never return normally; empty data and n = 0 are 'unspecified' (recorded as an observation). Non-trivial: n >= 2.",
        nm = nmax
    );
    rep.exhaustive = true;
    rep.assumptions = vec!["any panic message is accepted for an ill-shaped call".into(), "process(): scratch is allocated internally, so only the data-length dimension applies".into()];
    finalize(ctx, rep)
}
