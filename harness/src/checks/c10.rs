//! C10, Engine B (`planfsm`): explicit-state exploration of the REAL planner's reachable cache states.
//! A state is represented by a request history and materialised by replaying it on a fresh planner; the
//! canonical form is the sorted list of (cache key, scratch lengths, behaviour hash of the cached instance).
use crate::core::*;
use crate::dd::DD;
use crate::framework::{finalize, Ctx, Report, Tier};
use crate::inputs;
use crate::planparse;
use crate::refdft::{l2_error, Ref};
use crate::util::{fnv_u64, par_map, Json, FNV_OFFSET};
use rustfft::verif_hooks as vh;
use rustfft::{Fft, FftDirection};
use std::collections::{BTreeMap, BTreeSet, HashMap};
use std::sync::{Arc, Mutex};

type Req = (usize, FftDirection);

fn req_name(r: &Req) -> String {
    format!("{}{}", r.0, if r.1 == FftDirection::Forward { "f" } else { "i" })
}
fn hist_name(h: &[Req]) -> String {
    h.iter().map(req_name).collect::<Vec<_>>().join(",")
}

/// behaviour hash of an instance: output bits of the three explicit-scratch entry points on two probe vectors
fn inst_hash<T: Real>(f: &dyn Fft<T>) -> u64 {
    let n = f.len();
    let mut h = fnv_u64(FNV_OFFSET, n as u64);
    h = fnv_u64(h, f.get_inplace_scratch_len() as u64);
    h = fnv_u64(h, f.get_outofplace_scratch_len() as u64);
    h = fnv_u64(h, f.get_immutable_scratch_len() as u64);
    for salt in [11u64, 12] {
        let x = dense_vec::<T>(n, salt);
        for e in Entry::EXPLICIT {
            match call_plain(f, e, &x).out {
                Some(o) => h = hash_bits(h, &o),
                None => h = fnv_u64(h, 0xDEAD),
            }
        }
    }
    h
}

/// references for one (n, dir): reduced impulse columns + two dense vectors with their O(n^2) spectra
struct RefSet<T: Real> {
    impulses: Vec<(String, Vec<C<T>>, Vec<(DD, DD)>)>,
    dense: Vec<(String, Vec<C<T>>, Vec<(DD, DD)>)>,
}
fn make_refset<T: Real>(n: usize, d: FftDirection, seed: u64) -> RefSet<T> {
    let rf = Ref::new(n);
    let mut impulses = Vec::new();
    if n > 0 {
        for j in inputs::impulse_positions(n, n <= 64) {
            for imag in [false, true] {
                impulses.push((format!("impulse:{}:{}", if imag { "im" } else { "re" }, j), from_c64::<T>(&inputs::impulse(n, j, imag)), rf.impulse_col(j, imag, d)));
            }
        }
    }
    let mut dense = Vec::new();
    if n > 0 {
        let dynexp = if T::NAME == "f32" { 30 } else { 200 };
        for inp in inputs::structured(&rf, seed, dynexp, n > 3000) {
            if !(inp.name.starts_with("dense:uniform[-1") || inp.name == "multitone8" || inp.name == "spikes" || inp.name == "ones") {
                continue;
            }
            let x64 = inputs::round_to::<T>(&inp.x);
            if let Some((r, _slack)) = inputs::reference::<T>(&rf, &inp, &x64, d, n <= 3000) {
                // the closed-form slack is ignored on purpose only where it is zero
                if _slack == 0.0 {
                    dense.push((inp.name.clone(), from_c64::<T>(&x64), r));
                }
            }
        }
    }
    RefSet { impulses, dense }
}

/// I1, I2, I3, I5 for one instance. Returns the first problem.
fn verify_instance<T: Real>(f: &dyn Fft<T>, n: usize, d: FftDirection, rs: &RefSet<T>) -> Option<String> {
    if f.len() != n || f.fft_direction() != d {
        return Some(format!("I1: requested ({}, {}) but got ({}, {})", n, dir_name(d), f.len(), dir_name(f.fft_direction())));
    }
    if n == 0 {
        return None;
    }
    let b = bound::<T>(n);
    for (name, x, r) in rs.impulses.iter().chain(rs.dense.iter()) {
        for e in Entry::ALL {
            let co = call_plain(f, e, x);
            let out = match co.out {
                Some(o) => o,
                None => return Some(format!("well-shaped call ({} on {}) panicked: {}", e.name(), name, co.panic_msg.unwrap_or_default())),
            };
            let (err, rn) = l2_error(&out, r);
            if !(err <= b * rn) {
                return Some(format!("I2/I3 (C01/C02): {} on {}: relative error {:e} > {:e}", e.name(), name, err / rn.max(1e-300), b));
            }
            // I5: exactly the advertised scratch, NaN-poisoned, output NaN-poisoned: same bits
            if e != Entry::Process {
                let nan = C::new(T::from64(f64::NAN), T::from64(f64::NAN));
                let scr = vec![nan; e.scratch_len(f)];
                let oi = if e.has_output() { vec![nan; x.len()] } else { vec![] };
                match call(f, e, x, &oi, &scr).out {
                    Some(o2) if same_bits(&o2, &out) => {}
                    Some(_) => return Some(format!("I5 (C08): {} on {}: output depends on the initial scratch/output content", e.name(), name)),
                    None => return Some(format!("I5 (C08): {} on {}: exactly the advertised scratch was rejected", e.name(), name)),
                }
            }
        }
    }
    None
}

/// I4: C06 between the two instances the planner actually returned
fn verify_pair<T: Real>(fw: &dyn Fft<T>, iv: &dyn Fft<T>, n: usize) -> Option<String> {
    if n == 0 {
        return None;
    }
    let b = bound::<T>(n);
    let x = dense_vec::<T>(n, 21);
    let xn = l2(&x);
    let nx: Vec<C<T>> = x.iter().map(|c| C::new(T::from64(c.re.to64() * n as f64), T::from64(c.im.to64() * n as f64))).collect();
    let tol = (2.0 * b + b * b) * n as f64 * xn + T::EPS * n as f64 * xn;
    for e in Entry::ALL {
        let y = call_plain(fw, e, &x).out?;
        let z = call_plain(iv, e, &y).out?;
        if !(l2_diff(&z, &nx) <= tol) {
            return Some(format!("I4 (C06): inverse(forward(x)) deviates from n*x by {:e} (allowance {:e}) through {}", l2_diff(&z, &nx), tol, e.name()));
        }
        let xc: Vec<C<T>> = x.iter().map(|c| c.conj()).collect();
        let a = call_plain(iv, e, &x).out?;
        let bb: Vec<C<T>> = call_plain(fw, e, &xc).out?.iter().map(|c| c.conj()).collect();
        if !(l2_diff(&a, &bb) <= 2.0 * b * (n as f64).sqrt() * xn) {
            return Some(format!("I4 (C06): inverse(x) != conj(forward(conj(x))) through {}", e.name()));
        }
    }
    None
}

struct Materialised<T: Real> {
    planner: AnyPlanner<T>,
    returned: Vec<Arc<dyn Fft<T>>>,
    plan_reports: Vec<String>,
}
fn replay_history<T: Real>(pk: PK, h: &[Req]) -> Result<Materialised<T>, String> {
    let mut planner = AnyPlanner::<T>::new(pk).ok_or("planner unavailable")?;
    let mut returned = Vec::new();
    let mut plan_reports = Vec::new();
    for (i, r) in h.iter().enumerate() {
        let last = i + 1 == h.len();
        if last {
            vh::record(true);
        }
        let f = plan_catch(&mut planner, r.0, r.1);
        if last {
            plan_reports = vh::take_plan_events();
            vh::record(false);
        }
        match f {
            Ok(f) => returned.push(f),
            Err(m) => return Err(format!("plan_fft({}, {}) panicked after history [{}]: {}", r.0, dir_name(r.1), hist_name(&h[..i]), m)),
        }
    }
    Ok(Materialised { planner, returned, plan_reports })
}

/// canonical form of the planner state: sorted (len, dir, instance hash) over the cache keys
fn canonical<T: Real>(m: &mut Materialised<T>) -> Result<Vec<(usize, bool, u64)>, String> {
    let keys = m.planner.cache_keys().ok_or("no cache view")?;
    let mut v = Vec::with_capacity(keys.len());
    for (len, d) in keys {
        // asking for a cached (len, dir) returns the cached instance and leaves the cache unchanged
        let f = plan_catch(&mut m.planner, len, d).map_err(|e| format!("re-requesting cached ({}, {}) panicked: {}", len, dir_name(d), e))?;
        v.push((len, d == FftDirection::Inverse, inst_hash(f.as_ref())));
    }
    v.sort();
    Ok(v)
}

struct Shared<T: Real> {
    refsets: HashMap<(usize, bool), RefSet<T>>,
    /// verdict memo: (n, inverse?, behaviour hash) -> problem
    verdicts: Mutex<HashMap<(usize, bool, u64), Option<String>>>,
    pair_verdicts: Mutex<HashMap<(usize, u64, u64), Option<String>>>,
    /// distinct behaviours seen per request
    behaviours: Mutex<BTreeMap<(usize, bool), BTreeSet<u64>>>,
}

struct TransOut {
    new_hist: Vec<Req>,
    canon: Option<Vec<(usize, bool, u64)>>,
    violations: Vec<(String, String)>,
    cache_base: bool,
    machinery: Option<String>,
}

fn transition<T: Real>(pk: PK, hist: &[Req], r: Req, sh: &Shared<T>) -> TransOut {
    let mut nh = hist.to_vec();
    nh.push(r);
    let key = format!("C10|pk={}|T={}|history={}", pk.name(), T::NAME, hist_name(&nh));
    let mut out = TransOut { new_hist: nh.clone(), canon: None, violations: vec![], cache_base: false, machinery: None };
    let mut m = match replay_history::<T>(pk, &nh) {
        Ok(m) => m,
        Err(e) => {
            out.violations.push((key, e));
            return out;
        }
    };
    out.cache_base = m.plan_reports.iter().any(|p| p.contains("CacheBase") && !p.contains("radixes: []"));
    let f = Arc::clone(m.returned.last().unwrap());
    let hsh = inst_hash(f.as_ref());
    sh.behaviours.lock().unwrap().entry((r.0, r.1 == FftDirection::Inverse)).or_default().insert(hsh);
    // I1-I3, I5 (memoised per distinct behaviour)
    let memo_key = (r.0, r.1 == FftDirection::Inverse, hsh);
    let cached = sh.verdicts.lock().unwrap().get(&memo_key).cloned();
    let verdict = match cached {
        Some(v) => v,
        None => {
            let rs = &sh.refsets[&(r.0, r.1 == FftDirection::Inverse)];
            let v = verify_instance(f.as_ref(), r.0, r.1, rs);
            sh.verdicts.lock().unwrap().insert(memo_key, v.clone());
            v
        }
    };
    if let Some(p) = verdict {
        out.violations.push((key.clone(), format!("after history [{}], plan_fft({}, {}) returned a transform that fails {}", hist_name(hist), r.0, dir_name(r.1), p)));
    }
    // I4: both directions of this length requested along the history
    if let Some(pos) = nh.iter().position(|q| q.0 == r.0 && q.1 != r.1) {
        let other = Arc::clone(&m.returned[pos]);
        let (fw, iv) = if r.1 == FftDirection::Forward { (Arc::clone(&f), other) } else { (other, Arc::clone(&f)) };
        let (hf, hi) = (inst_hash(fw.as_ref()), inst_hash(iv.as_ref()));
        let cached = sh.pair_verdicts.lock().unwrap().get(&(r.0, hf, hi)).cloned();
        let v = match cached {
            Some(v) => v,
            None => {
                let v = verify_pair(fw.as_ref(), iv.as_ref(), r.0);
                sh.pair_verdicts.lock().unwrap().insert((r.0, hf, hi), v.clone());
                v
            }
        };
        if let Some(p) = v {
            out.violations.push((key.clone(), format!("after history [{}]: {}", hist_name(&nh), p)));
        }
    }
    // canonical form of the new state
    let canon = match canonical(&mut m) {
        Ok(c) => c,
        Err(e) => {
            out.violations.push((key.clone(), e));
            return out;
        }
    };
    // I6: a second planner fed the same history is in the same state and returns the same behaviour
    match replay_history::<T>(pk, &nh) {
        Ok(mut m2) => {
            let h2 = inst_hash(m2.returned.last().unwrap().as_ref());
            if h2 != hsh {
                out.violations.push((key.clone(), format!("I6: two planners fed the same history [{}] returned transforms with different output bits", hist_name(&nh))));
            }
            match canonical(&mut m2) {
                Ok(c2) if c2 == canon => {}
                Ok(_) => out.machinery = Some(format!("state after [{}] is not a deterministic function of the history", hist_name(&nh))),
                Err(e) => out.violations.push((key.clone(), e)),
            }
        }
        Err(e) => out.violations.push((key.clone(), format!("I6: second replay failed: {}", e))),
    }
    // I7: transforms stay valid after the planner is dropped
    let before: Vec<u64> = m.returned.iter().map(|f| inst_hash(f.as_ref())).collect();
    let returned = std::mem::take(&mut m.returned);
    drop(m);
    let after: Vec<u64> = returned.iter().map(|f| inst_hash(f.as_ref())).collect();
    if before != after {
        out.violations.push((key, "I7: a transform changed behaviour after its planner was dropped".into()));
    }
    out.canon = Some(canon);
    out
}

/// the closed request pool: seeds plus every stage / inner length the plan reports name
fn build_pool<T: Real>(pk: PK, seeds: &[usize], cap: usize) -> Vec<usize> {
    let mut pool: Vec<usize> = Vec::new();
    let mut queue: Vec<usize> = seeds.to_vec();
    let mut pl = match AnyPlanner::<T>::new(pk) {
        Some(p) => p,
        None => return pool,
    };
    while let Some(n) = queue.pop() {
        if pool.contains(&n) || pool.len() >= cap {
            continue;
        }
        pool.push(n);
        if let Some(s) = pl.plan_only(n, FftDirection::Forward) {
            let mut subs: Vec<usize> = Vec::new();
            if pk == PK::Avx {
                if let Ok(p) = planparse::parse_avx(&s) {
                    subs.extend(p.stages().iter().map(|&x| x as usize));
                    match p.base {
                        planparse::AvxBase::Raders(q) => subs.push(q as usize - 1),
                        planparse::AvxBase::Bluesteins(_, inner) => subs.push(inner as usize),
                        _ => {}
                    }
                }
            } else if let Ok(v) = planparse::parse(&s) {
                planparse::walk(&v, &mut |node| {
                    if let Ok(l) = planparse::recipe_len(node) {
                        subs.push(l as usize);
                    }
                });
            }
            subs.sort();
            subs.dedup();
            // larger sub-lengths first: they are the interesting cache hits
            for s in subs.into_iter().rev() {
                if s != n && s <= 4096 && !pool.contains(&s) {
                    queue.insert(0, s);
                }
            }
        }
    }
    pool.sort();
    pool
}

struct FsmResult {
    rep: Report,
    states: u64,
    transitions: u64,
    depth_completed: usize,
    closure: bool,
    cache_base_transitions: u64,
    multi_behaviour_keys: usize,
    pool: Vec<usize>,
    requests: Vec<String>,
}

/// `closure_r`: None = the whole closed pool to `max_depth`; Some(r) = a sub-pool of r requests (the first seed in
/// both directions, then the largest sub-lengths the plan reports name, then the other seeds) explored until no new
/// state appears (`max_depth` is then only a safety net).
fn explore<T: Real>(pk: PK, seeds: &[usize], cap: usize, max_depth: usize, state_cap: usize, seed: u64, closure_r: Option<usize>) -> Option<FsmResult> {
    AnyPlanner::<T>::new(pk)?;
    let mut pool = build_pool::<T>(pk, seeds, cap);
    let mut requests: Vec<Req> = Vec::new();
    if let Some(r) = closure_r {
        // lengths in the order: seed0, its sub-lengths (largest first), seed1, ...
        let mut order: Vec<usize> = Vec::new();
        for (si, &s) in seeds.iter().enumerate() {
            let sub = build_pool::<T>(pk, &[s], 1 + (r + 1) / 2);
            let mut sub: Vec<usize> = sub.into_iter().filter(|x| *x != s).collect();
            sub.sort_by(|a, b| b.cmp(a));
            for x in std::iter::once(s).chain(sub.into_iter().take(if si == 0 { 3 } else { 1 })) {
                if !order.contains(&x) {
                    order.push(x);
                }
            }
        }
        for (i, &n) in order.iter().enumerate() {
            if requests.len() < r {
                requests.push((n, FftDirection::Forward));
            }
            if (i < 2 || i % 3 == 0) && requests.len() < r {
                requests.push((n, FftDirection::Inverse));
            }
        }
        pool = requests.iter().map(|q| q.0).collect();
        pool.sort();
        pool.dedup();
    } else {
        for &n in &pool {
            requests.push((n, FftDirection::Forward));
        }
        // inverse requests for every second length (keeps the pool small; direction interplay is still exercised)
        for (i, &n) in pool.iter().enumerate() {
            if i % 2 == 0 || seeds.contains(&n) {
                requests.push((n, FftDirection::Inverse));
            }
        }
    }
    let mut refsets = HashMap::new();
    let keys: Vec<(usize, bool)> = requests.iter().map(|r| (r.0, r.1 == FftDirection::Inverse)).collect();
    let sets = par_map(&keys, |_, &(n, inv)| make_refset::<T>(n, if inv { FftDirection::Inverse } else { FftDirection::Forward }, seed));
    for (k, s) in keys.iter().zip(sets) {
        refsets.insert(*k, s);
    }
    let sh = Shared::<T> { refsets, verdicts: Mutex::new(HashMap::new()), pair_verdicts: Mutex::new(HashMap::new()), behaviours: Mutex::new(BTreeMap::new()) };
    let mut rep = Report::new();
    let mut seen: BTreeSet<Vec<(usize, bool, u64)>> = BTreeSet::new();
    seen.insert(Vec::new());
    let mut frontier: Vec<Vec<Req>> = vec![Vec::new()];
    let mut transitions = 0u64;
    let mut cache_base = 0u64;
    let mut depth_completed = 0;
    let mut closure = false;
    for depth in 1..=max_depth {
        let mut work: Vec<(usize, Req)> = Vec::new();
        for (si, _) in frontier.iter().enumerate() {
            for r in &requests {
                work.push((si, *r));
            }
        }
        let outs = par_map(&work, |_, &(si, r)| transition::<T>(pk, &frontier[si], r, &sh));
        let mut next: Vec<Vec<Req>> = Vec::new();
        for o in outs {
            transitions += 1;
            if o.cache_base {
                cache_base += 1;
            }
            for (k, w) in o.violations {
                rep.violate(k, w, Json::Null);
            }
            if let Some(m) = o.machinery {
                rep.machinery_errors.push(m);
            }
            if let Some(c) = o.canon {
                if seen.insert(c) {
                    next.push(o.new_hist);
                }
            }
        }
        depth_completed = depth;
        if next.is_empty() {
            closure = true;
            break;
        }
        if seen.len() > state_cap {
            rep.notes.push(format!("{} {}: state cap {} reached at depth {}", pk.name(), T::NAME, state_cap, depth));
            break;
        }
        frontier = next;
    }
    let multi = sh.behaviours.lock().unwrap().values().filter(|s| s.len() >= 2).count();
    Some(FsmResult { rep, states: seen.len() as u64, transitions, depth_completed, closure, cache_base_transitions: cache_base, multi_behaviour_keys: multi, pool, requests: requests.iter().map(req_name).collect() })
}


/// Long histories: ONE planner asked for every length of a sweep, each returned transform verified (I1-I3 on a light
/// alphabet with closed-form references, I5 NaN-poisoned exact scratch). A sweep visits planner states that no short
/// history over a pool reaches (hundreds of cached lengths); every prefix of the sweep is a state.
fn sweep_history<T: Real>(pk: PK, order: &[Req], label: &str, seed: u64, rep: &mut Report) -> (u64, u64) {
    let mut pl = match AnyPlanner::<T>::new(pk) {
        Some(p) => p,
        None => return (0, 0),
    };
    let mut transitions = 0u64;
    let mut rewritten = 0u64;
    let mut prev: Vec<Req> = Vec::new();
    for &(n, d) in order {
        vh::record(true);
        let r = plan_catch(&mut pl, n, d);
        let reports = vh::take_plan_events();
        vh::record(false);
        transitions += 1;
        if reports.iter().any(|p| p.contains("CacheBase") && !p.contains("radixes: []")) {
            rewritten += 1;
        }
        let tail: Vec<String> = prev.iter().rev().take(3).rev().map(req_name).collect();
        let key = format!("C10|pk={}|T={}|sweep={}|at={}|after=..{}", pk.name(), T::NAME, label, req_name(&(n, d)), tail.join(","));
        prev.push((n, d));
        let f = match r {
            Ok(f) => f,
            Err(m) => {
                rep.violate(key, format!("plan_fft({}, {}) panicked in the {} sweep (all earlier lengths of the sweep already planned on this planner): {}", n, dir_name(d), label, m), Json::Null);
                continue;
            }
        };
        if f.len() != n || f.fft_direction() != d {
            rep.violate(key, format!("I1: in the {} sweep the request ({}, {}) returned ({}, {})", label, n, dir_name(d), f.len(), dir_name(f.fft_direction())), Json::Null);
            continue;
        }
        if n == 0 {
            continue;
        }
        // light alphabet with closed-form spectra: 3 impulses and the closed-form STRUCT members
        let rf = Ref::new(n);
        let b = bound::<T>(n);
        let mut cases: Vec<(String, Vec<C<T>>, Vec<(DD, DD)>, f64)> = Vec::new();
        for j in [0usize, n / 2, n - 1] {
            cases.push((format!("impulse:re:{}", j), from_c64::<T>(&inputs::impulse(n, j, false)), rf.impulse_col(j, false, d), 0.0));
        }
        for inp in inputs::structured(&rf, seed, 20, true) {
            if inp.name == "zero" {
                continue;
            }
            let x64 = inputs::round_to::<T>(&inp.x);
            if let Some((rr, slack)) = inputs::reference::<T>(&rf, &inp, &x64, d, false) {
                cases.push((inp.name.clone(), from_c64::<T>(&x64), rr, slack));
            }
        }
        'cases: for (name, x, want, slack) in &cases {
            for e in [Entry::InPlace, Entry::Immut, Entry::OutOfPlace] {
                let nan = C::new(T::from64(f64::NAN), T::from64(f64::NAN));
                let scr = vec![nan; e.scratch_len(f.as_ref())];
                let oi = if e.has_output() { vec![nan; x.len()] } else { vec![] };
                match call(f.as_ref(), e, x, &oi, &scr).out {
                    None => {
                        rep.violate(key.clone(), format!("in the {} sweep the transform for ({}, {}) rejected a well-shaped call with exactly the advertised scratch ({} on {})", label, n, dir_name(d), e.name(), name), Json::Null);
                        break 'cases;
                    }
                    Some(o) => {
                        let (err, rn) = l2_error(&o, want);
                        if !(err <= (b + slack) * rn) {
                            rep.violate(key.clone(), format!("in the {} sweep the transform returned for ({}, {}) fails C01/C02 ({} on {}, NaN-filled scratch): relative error {:e} > {:e}", label, n, dir_name(d), e.name(), name, err / rn.max(1e-300), b + slack), Json::Null);
                            break 'cases;
                        }
                    }
                }
            }
        }
    }
    (transitions, rewritten)
}

fn seeds_for(pk: PK, is32: bool) -> Vec<usize> {
    match (pk, is32) {
        // radix chains with >= 2 stages over a butterfly base, a Rader base and a Bluestein base
        (PK::Avx, true) => vec![2520, 1184, 118, 576],
        (PK::Avx, false) => vec![2304, 592, 118, 360],
        _ => vec![2520, 1184, 118, 144, 74],
    }
}

pub fn run(ctx: &Ctx) -> i32 {
    let t = ctx.tier;
    let mut rep = Report::new();
    if let Some(r) = &ctx.replay {
        // replay one history: pk, T, history
        let key = r.get("key").and_then(|k| k.as_str()).unwrap_or("").to_string();
        let m = crate::framework::parse_key(&key);
        let pk = PK::parse(m.get("pk").map(|s| s.as_str()).unwrap_or("avx")).unwrap_or(PK::Avx);
        let hist: Vec<Req> = m
            .get("history")
            .map(|h| {
                h.split(',')
                    .filter_map(|tok| {
                        let (num, d) = tok.split_at(tok.len().saturating_sub(1));
                        Some((num.parse().ok()?, if d == "i" { FftDirection::Inverse } else { FftDirection::Forward }))
                    })
                    .collect()
            })
            .unwrap_or_default();
        if hist.is_empty() {
            eprintln!("cannot parse the history in the replay key");
            return 2;
        }
        fn one<T: Real>(pk: PK, hist: &[Req], seed: u64) -> Vec<(String, String)> {
            let (h, r) = hist.split_at(hist.len() - 1);
            let mut refsets = HashMap::new();
            for q in hist {
                refsets.insert((q.0, q.1 == FftDirection::Inverse), make_refset::<T>(q.0, q.1, seed));
            }
            let sh = Shared::<T> { refsets, verdicts: Mutex::new(HashMap::new()), pair_verdicts: Mutex::new(HashMap::new()), behaviours: Mutex::new(BTreeMap::new()) };
            transition::<T>(pk, h, r[0], &sh).violations
        }
        for round in 0..2 {
            let v = if m.get("T").map(|s| s.as_str()) == Some("f32") { one::<f32>(pk, &hist, ctx.seed) } else { one::<f64>(pk, &hist, ctx.seed) };
            println!("replay round {}: {}", round, v.first().map(|x| format!("reproduces: {}", x.1)).unwrap_or("does not reproduce".into()));
            if round == 1 {
                for (k, w) in v {
                    rep.violate(k, w, Json::Null);
                }
            }
        }
        rep.evaluations = 2;
        rep.distinct_nontrivial = 2;
        rep.rule = "replay of one recorded request history on a fresh planner, run twice".into();
        rep.sample(Json::Str(key));
        std::env::set_var("VERIF_EVIDENCE_PART", "replay");
        return finalize(ctx, rep);
    }
    let depth = t.pick(3, 6);
    let cap = t.pick(14, 18);
    let state_cap = t.pick(8_000, 40_000);
    let mut table = Vec::new();
    let mut avx_cache_base = 0u64;
    let mut avx_present = false;
    // two kinds of search per (planner, type): the wide pool to a fixed depth, and a sub-pool of `closure_r`
    // requests explored until NO new state appears (the complete reachable state space over that sub-pool)
    let closure_r = t.pick(10usize, 14usize);
    let mut closures_reached = 0usize;
    let mut closures_run = 0usize;
    for pk in PK::DISTINCT {
        for is32 in [true, false] {
            for closure in [None, Some(closure_r)] {
                let seeds = seeds_for(pk, is32);
                let (dep, scap) = if closure.is_some() { (closure_r + 1, t.pick(20_000, 200_000)) } else { (depth, state_cap) };
                let r = if is32 { explore::<f32>(pk, &seeds, cap, dep, scap, ctx.seed, closure) } else { explore::<f64>(pk, &seeds, cap, dep, scap, ctx.seed, closure) };
                let r = match r {
                    Some(r) => r,
                    None => continue,
                };
                if pk == PK::Avx {
                    avx_present = true;
                    avx_cache_base += r.cache_base_transitions;
                }
                if closure.is_some() {
                    closures_run += 1;
                    if r.closure {
                        closures_reached += 1;
                    } else {
                        rep.notes.push(format!("{} {}: closure search stopped at depth {} without closing", pk.name(), if is32 { "f32" } else { "f64" }, r.depth_completed));
                    }
                }
                rep.states += r.states;
                rep.transitions += r.transitions;
                rep.evaluations += r.transitions;
                rep.distinct_nontrivial += r.transitions;
                table.push(
                    Json::obj()
                        .with("planner", pk.name())
                        .with("type", if is32 { "f32" } else { "f64" })
                        .with("kind", if closure.is_some() { "closure over a sub-pool" } else { "wide pool, fixed depth" })
                        .with("pool_lengths", Json::Arr(r.pool.iter().map(|x| Json::Int(*x as i64)).collect()))
                        .with("requests", Json::Arr(r.requests.iter().map(|x| Json::Str(x.clone())).collect()))
                        .with("states", r.states)
                        .with("transitions", r.transitions)
                        .with("depth_completed", r.depth_completed)
                        .with("closure_reached", r.closure)
                        .with("transitions_rewritten_onto_a_cached_base", r.cache_base_transitions)
                        .with("requests_with_2_or_more_distinct_behaviours", r.multi_behaviour_keys),
                );
                rep.merge(r.rep);
            }
        }
    }
    // ---- long histories (sweeps)
    let sw_n: usize = t.pick(640, 3072);
    let fwd = FftDirection::Forward;
    let inv = FftDirection::Inverse;
    let orders: Vec<(&str, Vec<Req>)> = vec![
        ("descending", (1..=sw_n).rev().map(|n| (n, fwd)).collect()),
        ("ascending-inverse", (1..=sw_n).map(|n| (n, inv)).collect()),
        ("descending-alternating-directions", (1..=sw_n).rev().flat_map(|n| if n % 2 == 0 { vec![(n, fwd), (n, inv)] } else { vec![(n, inv), (n, fwd)] }).collect()),
        ("large-first-then-divisors", {
            // highly composite / chain-heavy lengths first, then everything else descending
            let mut big: Vec<usize> = (1..=sw_n).filter(|n| n % 96 == 0 || n % 125 == 0 || n % 243 == 0).collect();
            big.reverse();
            let rest: Vec<usize> = (1..=sw_n).rev().filter(|n| !big.contains(n)).collect();
            big.into_iter().chain(rest).map(|n| (n, fwd)).collect()
        }),
    ];
    let mut sjobs: Vec<(PK, bool, usize)> = Vec::new();
    for pk in PK::DISTINCT {
        for is32 in [true, false] {
            for oi in 0..orders.len() {
                sjobs.push((pk, is32, oi));
            }
        }
    }
    let seed = ctx.seed;
    let sparts = par_map(&sjobs, |_, &(pk, is32, oi)| {
        let mut r = Report::new();
        let (tr, rw) = if is32 { sweep_history::<f32>(pk, &orders[oi].1, orders[oi].0, seed, &mut r) } else { sweep_history::<f64>(pk, &orders[oi].1, orders[oi].0, seed, &mut r) };
        r.states = tr;
        r.transitions = tr;
        r.evaluations = tr;
        r.distinct_nontrivial = tr;
        (r, rw, pk)
    });
    let mut sweep_transitions = 0u64;
    let mut sweep_rewritten = 0u64;
    for (r, rw, pk) in sparts {
        sweep_transitions += r.transitions;
        if pk == PK::Avx {
            sweep_rewritten += rw;
        }
        rep.merge(r);
    }
    rep.set("sweep_histories", Json::Arr(orders.iter().map(|o| Json::Str(format!("{} ({} requests)", o.0, o.1.len()))).collect()));
    rep.set("sweep_transitions", sweep_transitions);
    rep.set("sweep_avx_transitions_rewritten_onto_a_cached_base", sweep_rewritten);
    rep.set("closure_searches_run", closures_run as i64);
    rep.set("closure_searches_closed", closures_reached as i64);
    if avx_present && avx_cache_base == 0 {
        rep.machinery_errors.push("vacuous: no AVX transition ever took the cache-rewrite path (CacheBase with a non-empty radix chain)".into());
    }
    rep.sample(Json::Str("C10|pk=avx|T=f32|history=504f,2520f,2520i".into()));
    rep.sample(table.first().cloned().unwrap_or(Json::Null));
    rep.set("searches", Json::Arr(table));
    rep.rule = format!(
        "per planner {{scalar,sse,avx}} x {{f32,f64}}: breadth-first search over the REAL planner's reachable cache states; requests = a closed pool (seeds with multi-stage radix chains / Rader / Bluestein bases, closed under every stage and inner length the plan reports name; forward for all, inverse for half) ; (a) the whole pool: all histories up to depth {d}; (b) a sub-pool of {cr} requests: until no new state appears, i.e. the complete reachable state space over that sub-pool (closure_reached per search); (c) four long sweep histories per planner and type (descending, ascending-inverse, descending with alternating directions, chain-heavy lengths first) over every length up to {sw}, every request of the sweep verified (I1, C01/C02 on impulses and closed-form vectors through three entry points with NaN-filled exact scratch); a state is deduplicated by its canonical form (sorted cache keys with scratch lengths and output-bit hash of each cached instance); invariants on every transition: I1 len/direction, I2 C01 on impulses, I3 C02 on dense vectors, I4 C06 between the instances the planner returned for the two directions, I5 exact NaN-poisoned scratch, I6 a second planner fed the same history is in the same state, I7 instances survive drop(planner). Every transition is an execution of the implementation (traces_validated_against_impl = transitions).",
        d = depth,
        cr = closure_r,
        sw = sw_n
    );
    rep.exhaustive = false;
    rep.set("exhaustive_within", format!("all request histories over the wide pool up to depth {}; ALL request histories of any length over each closure sub-pool of {} requests (see per-search 'closure_reached')", depth, closure_r));
    rep.assumptions = vec![
        "canonical form: planning reads the cache only through contains/get by (len, direction) and wrappers read a cached instance only through its scratch lengths and its process* behaviour; the probe hash errs towards over-fine".into(),
        "requests outside the pool are not covered; random length-12 sequences from the property text are not run (sampling is outside this family)".into(),
    ];
    let _ = Tier::Quick;
    finalize(ctx, rep)
}
