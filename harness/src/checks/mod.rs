use crate::framework::Ctx;
pub mod c01;
pub mod c02;

pub fn dispatch(ctx: &Ctx, rest: &[String]) -> i32 {
    match ctx.id.as_str() {
        "selfcheck" => {
            println!("self-checks passed");
            0
        }
        "case" => {
            // ad-hoc: run float-layer cases given by key, print the error ratio
            for k in rest {
                match crate::floatlayer::replay_ratio(k, ctx.seed, 1.0, 4096) {
                    Ok((ratio, v)) => println!("{} ratio={:.4} {}", k, ratio, v.unwrap_or_default()),
                    Err(e) => println!("{} error: {}", k, e),
                }
            }
            0
        }
        "C01" => c01::run(ctx),
        "C02" => c02::run(ctx),
        other => {
            eprintln!("unknown check {}", other);
            2
        }
    }
}
