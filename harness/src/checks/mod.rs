use crate::framework::Ctx;
pub mod c01;
pub mod c02;
pub mod c03;
pub mod c04;
pub mod c05;
pub mod c06;
pub mod c07;
pub mod c08;
pub mod c09;
pub mod c10;
pub mod c11;
pub mod c12;
pub mod c13;
pub mod c14;
pub mod c15;

pub fn dispatch(ctx: &Ctx, rest: &[String]) -> i32 {
    match ctx.id.as_str() {
        "selfcheck" => {
            println!("self-checks passed");
            0
        }
        "case" => {
            // ad-hoc: run float-layer cases given by key, print the error ratio
            for k in rest {
                match crate::floatlayer::replay_ratio(k, ctx.seed, 1.0, 4096) {
                    Ok((ratio, v)) => println!("{} ratio={:.4} {}", k, ratio, v.unwrap_or_default()),
                    Err(e) => println!("{} error: {}", k, e),
                }
            }
            0
        }
        "C01" => c01::run(ctx),
        "C02" => c02::run(ctx),
        "C03" => c03::run(ctx),
        "C04" => c04::run(ctx),
        "C05" => c05::run(ctx),
        "C06" => c06::run(ctx),
        "C07" => c07::run(ctx),
        "C08" => c08::run(ctx),
        "C09" => c09::run(ctx),
        "C10" => c10::run(ctx),
        "C11" => c11::run(ctx),
        "C12" => c12::run(ctx),
        "C13" => c13::run(ctx),
        "C14" => c14::run(ctx),
        "C15" => c15::run(ctx),
        other => {
            eprintln!("unknown check {}", other);
            2
        }
    }
}
