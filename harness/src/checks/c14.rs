//! C14: any element type meeting the numeric bound gets a correct portable transform.
use crate::checks::c01::exact_planned;
use crate::core::*;
use crate::dd::{DD, DD_PLAIN_CONSTS};
use crate::elem::{Cnt, Yld, W32, W64};
use crate::fp::Fp;
use crate::framework::{finalize, parse_key, Ctx, Report};
use crate::lens;
use crate::refdft::Ref;
use crate::util::{par_map, Json, Rng};
use num_complex::Complex;
use rustfft::verif_hooks as vh;
use rustfft::{FftDirection, FftNum, FftPlanner, FftPlannerAvx, FftPlannerScalar, FftPlannerSse};

const MASKS: [(&str, u32); 4] = [("avx2+fma", u32::MAX), ("avx+fma", vh::FEAT_SSE41 | vh::FEAT_AVX | vh::FEAT_FMA), ("sse4.1", vh::FEAT_SSE41), ("none", 0)];

fn decline<T: FftNum>(ty: &str, rep: &mut Report) {
    for (mname, mask) in MASKS {
        vh::set_feature_mask(mask);
        let avx = std::panic::catch_unwind(|| FftPlannerAvx::<T>::new().is_ok());
        let sse = std::panic::catch_unwind(|| FftPlannerSse::<T>::new().is_ok());
        let kind = std::panic::catch_unwind(|| FftPlanner::<T>::new().verif_kind());
        vh::set_feature_mask(u32::MAX);
        rep.evaluations += 3;
        rep.transitions += 3;
        rep.distinct_nontrivial += 3;
        for (pname, r) in [("avx", &avx), ("sse", &sse)] {
            match r {
                Ok(false) => {}
                Ok(true) => rep.violate(format!("C14|part=decline|T={}|planner={}|mask={}", ty, pname, mname), format!("the {} planner accepted element type {} (only f32/f64 may take a SIMD path)", pname, ty), Json::Null),
                Err(_) => rep.violate(format!("C14|part=decline|T={}|planner={}|mask={}", ty, pname, mname), format!("the {} planner constructor panicked for element type {}", pname, ty), Json::Null),
            }
        }
        match kind {
            Ok("scalar") => {}
            Ok(k) => rep.violate(format!("C14|part=decline|T={}|planner=auto|mask={}", ty, mname), format!("the automatic planner chose the {} back-end for element type {}", k, ty), Json::Null),
            Err(_) => rep.violate(format!("C14|part=decline|T={}|planner=auto|mask={}", ty, mname), format!("FftPlanner::new() panicked for element type {}", ty), Json::Null),
        }
    }
}

/// newtype of f32/f64 through the automatic planner vs the scalar planner on the bare float: same bits
fn newtype_len<W: FftNum, T: Real>(ty: &str, n: usize, wrap: fn(T) -> W, unwrap: fn(W) -> T, rep: &mut Report) {
    for d in DIRS {
        let built = std::panic::catch_unwind(|| (FftPlanner::<W>::new().plan_fft(n, d), FftPlannerScalar::<T>::new().plan_fft(n, d)));
        let (fw, ft) = match built {
            Ok(x) => x,
            Err(e) => {
                rep.violate(format!("C14|part=newtype|T={}|dir={}|n={}|what=plan", ty, dir_name(d), n), format!("planning panicked: {}", panic_text(&e)), Json::Null);
                continue;
            }
        };
        rep.states += 1;
        for (iname, x) in [("dense", dense_vec::<T>(n, 5)), ("impulse", {
            let mut v = vec![Complex::new(T::from64(0.0), T::from64(0.0)); n];
            if n > 0 {
                v[n / 3] = Complex::new(T::from64(1.0), T::from64(-0.5));
            }
            v
        })] {
            let xw: Vec<Complex<W>> = x.iter().map(|c| Complex::new(wrap(c.re), wrap(c.im))).collect();
            for e in Entry::ALL {
                let a = call_plain(fw.as_ref(), e, &xw);
                let b = call_plain(ft.as_ref(), e, &x);
                rep.evaluations += 1;
                rep.transitions += 2;
                if n >= 2 {
                    rep.distinct_nontrivial += 1;
                }
                let key = format!("C14|part=newtype|T={}|dir={}|n={}|entry={}|in={}", ty, dir_name(d), n, e.name(), iname);
                match (a.out, b.out) {
                    (Some(a), Some(b)) => {
                        let au: Vec<Complex<T>> = a.iter().map(|c| Complex::new(unwrap(c.re), unwrap(c.im))).collect();
                        if !same_bits(&au, &b) {
                            rep.violate(key, format!("FftPlanner::<{}> does not execute the portable float operations: output bits differ from FftPlannerScalar::<{}>", ty, T::NAME), Json::Null);
                        }
                    }
                    (None, _) => rep.violate(key, format!("well-shaped call panicked for element type {}: {}", ty, a.panic_msg.unwrap_or_default()), Json::Null),
                    (_, None) => {}
                }
            }
        }
    }
}

fn dd_len(n: usize, rep: &mut Report) {
    if n == 0 {
        return;
    }
    let rf = Ref::new(n);
    let mut rng = Rng::new(77 ^ n as u64);
    let x64: Vec<C<f64>> = (0..n).map(|_| C::new(rng.sym(), rng.sym())).collect();
    for d in DIRS {
        DD_PLAIN_CONSTS.with(|c| c.set(0));
        let f = match std::panic::catch_unwind(|| FftPlanner::<DD>::new().plan_fft(n, d)) {
            Ok(f) => f,
            Err(e) => {
                rep.violate(format!("C14|part=dd|dir={}|n={}|what=plan", dir_name(d), n), format!("planning panicked: {}", panic_text(&e)), Json::Null);
                continue;
            }
        };
        let plain = DD_PLAIN_CONSTS.with(|c| c.get());
        rep.states += 1;
        let reference = rf.dft_dd(&x64, d);
        let x: Vec<Complex<DD>> = x64.iter().map(|c| Complex::new(DD::new(c.re), DD::new(c.im))).collect();
        for e in Entry::ALL {
            let co = call_plain(f.as_ref(), e, &x);
            rep.evaluations += 1;
            rep.transitions += 1;
            if n >= 2 {
                rep.distinct_nontrivial += 1;
            }
            let key = format!("C14|part=dd|dir={}|n={}|entry={}", dir_name(d), n, e.name());
            match co.out {
                None => rep.violate(key, format!("well-shaped call panicked for a double-double element type: {}", co.panic_msg.unwrap_or_default()), Json::Null),
                Some(o) => {
                    let mut e2 = 0.0f64;
                    let mut r2 = 0.0f64;
                    for (a, r) in o.iter().zip(&reference) {
                        let dr = (a.re - r.0).to_f64();
                        let di = (a.im - r.1).to_f64();
                        e2 += dr * dr + di * di;
                        r2 += r.0.hi * r.0.hi + r.1.hi * r.1.hi;
                    }
                    let rel = (e2 / r2.max(1e-300)).sqrt();
                    let cur = rep.extra.get("worst_dd_relative_error").and_then(|j| j.get("ratio")).and_then(|r| if let Json::Num(f) = r { Some(*f) } else { None }).unwrap_or(0.0);
                    if rel > cur {
                        rep.extra.insert("worst_dd_relative_error".into(), Json::obj().with("ratio", rel).with("case", key.as_str()));
                    }
                    if plain > 0 {
                        rep.notes.push(format!("double-double accuracy undecided for n={}: {} constants were handed over outside a twiddle context", n, plain));
                    } else if !(rel <= 1e-25) {
                        rep.violate(key, format!("with a double-double element type the result is only accurate to {:e}: the precision is not the element type's (a constant or an operation went through a narrower type)", rel), Json::Null);
                    }
                }
            }
        }
    }
}

pub fn run(ctx: &Ctx) -> i32 {
    let t = ctx.tier;
    let mut rep = Report::new();
    if let Some(r) = &ctx.replay {
        let k = r.get("key").and_then(|k| k.as_str()).unwrap_or("").to_string();
        let m = parse_key(&k);
        let n: usize = m.get("n").and_then(|s| s.parse().ok()).unwrap_or(1);
        for _ in 0..2 {
            let mut r1 = Report::new();
            match m.get("part").map(|s| s.as_str()) {
                Some("dd") => dd_len(n, &mut r1),
                Some("newtype") => match m.get("T").map(|s| s.as_str()) {
                    Some("W32") => newtype_len::<W32, f32>("W32", n, W32, |w| w.0, &mut r1),
                    Some("Cnt") => newtype_len::<Cnt, f64>("Cnt", n, Cnt, |w| w.0, &mut r1),
                    _ => newtype_len::<W64, f64>("W64", n, W64, |w| w.0, &mut r1),
                },
                Some("decline") => {
                    decline::<Fp>("Fp", &mut r1);
                    decline::<DD>("DD", &mut r1);
                    decline::<W32>("W32", &mut r1);
                    decline::<W64>("W64", &mut r1);
                    decline::<Cnt>("Cnt", &mut r1);
                }
                _ => {
                    let d = parse_dir(m.get("dir").map(|s| s.as_str()).unwrap_or("fwd")).unwrap_or(FftDirection::Forward);
                    exact_planned("C14", n, d, true, 2, ctx.seed, &Entry::ALL, &mut r1);
                }
            }
            println!("replay: {}", if r1.violations.is_empty() { "does not reproduce".to_string() } else { format!("reproduces: {}", r1.violations[0].what) });
            rep = r1;
        }
        rep.evaluations = rep.evaluations.max(2);
        rep.distinct_nontrivial = rep.distinct_nontrivial.max(2);
        rep.rule = "replay of one recorded case, run twice".into();
        rep.sample(Json::Str(k));
        std::env::set_var("VERIF_EVIDENCE_PART", "replay");
        return finalize(ctx, rep);
    }
    // (1) every SIMD planner declines, under every emulated CPU level (single-threaded: the mask is global)
    decline::<Fp>("Fp", &mut rep);
    decline::<DD>("DD", &mut rep);
    decline::<W32>("W32", &mut rep);
    decline::<W64>("W64", &mut rep);
    decline::<Cnt>("Cnt", &mut rep);
    decline::<Yld>("Yld", &mut rep);
    // (2) exact: prime field, complete basis for small n, dense vectors for the pool
    let ex_n = t.pick(128, 512);
    let mut work: Vec<(usize, FftDirection, bool)> = Vec::new();
    for (n, _) in lens::thin(&lens::pool(ex_n, t.pick(4096, 32768)), t.pick(40, 200)) {
        for d in DIRS {
            work.push((n, d, false));
        }
    }
    for n in (0..=ex_n).rev() {
        for d in DIRS {
            work.push((n, d, true));
        }
    }
    let seed = ctx.seed ^ 0xC14;
    let parts = par_map(&work, |_, &(n, d, full)| {
        let mut r = Report::new();
        exact_planned("C14", n, d, full, 2, seed, &Entry::ALL, &mut r);
        r
    });
    for p in parts.into_iter().rev() {
        rep.merge(p);
    }
    // (3) newtypes and the counting type: bit-identical to the scalar planner on the bare float
    let nt_n = t.pick(256, 1024);
    let l: Vec<usize> = (0..=nt_n).rev().collect();
    let parts = par_map(&l, |_, &n| {
        let mut r = Report::new();
        newtype_len::<W32, f32>("W32", n, W32, |w| w.0, &mut r);
        newtype_len::<W64, f64>("W64", n, W64, |w| w.0, &mut r);
        newtype_len::<Cnt, f64>("Cnt", n, Cnt, |w| w.0, &mut r);
        r
    });
    for p in parts.into_iter().rev() {
        rep.merge(p);
    }
    // (4) double-double: the precision really is the element type's
    let dd_n = t.pick(128, 512);
    let l: Vec<usize> = (1..=dd_n).rev().collect();
    let parts = par_map(&l, |_, &n| {
        let mut r = Report::new();
        dd_len(n, &mut r);
        r
    });
    for p in parts.into_iter().rev() {
        rep.merge(p);
    }
    rep.sample(Json::Str("C14|part=decline|T=Fp|planner=sse|mask=sse4.1".into()));
    rep.sample(Json::Str(format!("C14|layer=exact|pk=auto|T=Fp|dir=inv|n={}|prime=1", ex_n)));
    rep.sample(Json::Str("C14|part=newtype|T=W32|dir=fwd|n=100|entry=immut|in=dense".into()));
    rep.sample(Json::Str("C14|part=dd|dir=fwd|n=37|entry=outofplace".into()));
    rep.rule = format!(
        "element types {{Fp (prime field, 16 bytes), DD (double-double, 16 bytes), W32 (newtype of f32, 4 bytes), W64, Cnt (operation counting), Yld}}: (1) FftPlannerAvx/Sse::new() return Err and FftPlanner::new() falls back to the scalar back-end, under 4 emulated CPU levels; (2) FftPlanner::<Fp>, every n in 0..={en} x {{fwd,inv}} x 4 entry points x complete basis + 2 dense vectors (two primes), pool lengths with stratified impulses + dense vectors: equality with the DFT in F_p, and no non-ring operation (abs, signum, compare, %) on data; (3) W32/W64/Cnt through FftPlanner vs f32/f64 through FftPlannerScalar, every n in 0..={nn}: bit-identical outputs; (4) DD, n in 1..={dn}: relative error against a double-double naive DFT <= 1e-25. Non-trivial: n >= 2.",
        en = ex_n,
        nn = nt_n,
        dn = dd_n
    );
    rep.exhaustive = true;
    rep.assumptions = vec![
        "constants reach a generic element type only through from_f64 (twiddles via hook H1, sqrt(1/2)) and from_usize; a new float constant makes the exact layer 'undecided', not failing (C14 allows constants converted from f64)".into(),
    ];
    finalize(ctx, rep)
}
