//! C11: transforms are immutable, shareable across threads, and deterministic.
//! Schedule quantifier: Engine C (sched.rs). History quantifier: all call sequences of length <= 3 over a
//! 16-letter alphabet. Send/Sync: a probe crate compiled against /repo.
use crate::core::*;
use crate::elem::Yld;
use crate::framework::{finalize, root, Ctx, Report, Tier};
use crate::sched::{self, Execution};
use crate::util::{fnv_u64, par_map, Json, FNV_OFFSET};
use num_complex::Complex;
use rustfft::algorithm::butterflies::*;
use rustfft::algorithm::*;
use rustfft::{Fft, FftDirection, FftNum, FftPlanner};
use std::sync::{Arc, Mutex};

/// The harness must not itself depend on the library's auto traits (the probe crate owns that obligation),
/// so shared instances cross thread boundaries inside this wrapper.
struct Shared<T>(T);
unsafe impl<T> Send for Shared<T> {}
unsafe impl<T> Sync for Shared<T> {}

pub trait Bits: FftNum {
    fn to_bits64(self) -> u64;
    fn from64(x: f64) -> Self;
}
impl Bits for f32 {
    fn to_bits64(self) -> u64 {
        self.to_bits() as u64
    }
    fn from64(x: f64) -> f32 {
        x as f32
    }
}
impl Bits for f64 {
    fn to_bits64(self) -> u64 {
        self.to_bits()
    }
    fn from64(x: f64) -> f64 {
        x
    }
}
impl Bits for Yld {
    fn to_bits64(self) -> u64 {
        self.0.to_bits()
    }
    fn from64(x: f64) -> Yld {
        Yld(x)
    }
}

/// Control bits of the calling thread's SSE/AVX floating-point environment (MXCSR without the sticky exception
/// flags): rounding mode, flush-to-zero, denormals-are-zero, exception masks. This is per-thread state that outlives a
/// call; a transform that leaves it changed makes every LATER call on that thread compute something else.
#[cfg(target_arch = "x86_64")]
pub fn fp_control() -> u32 {
    let mut v: u32 = 0;
    unsafe {
        std::arch::asm!("stmxcsr [{}]", in(reg) &mut v, options(nostack));
    }
    v & !0x3f
}
#[cfg(target_arch = "x86_64")]
pub fn fp_control_restore(v: u32) {
    let cur = {
        let mut c: u32 = 0;
        unsafe {
            std::arch::asm!("stmxcsr [{}]", in(reg) &mut c, options(nostack));
        }
        c
    };
    let newv: u32 = (cur & 0x3f) | v;
    unsafe {
        std::arch::asm!("ldmxcsr [{}]", in(reg) &newv, options(nostack));
    }
}
#[cfg(not(target_arch = "x86_64"))]
pub fn fp_control() -> u32 {
    0
}
#[cfg(not(target_arch = "x86_64"))]
pub fn fp_control_restore(_v: u32) {}

thread_local! {
    /// first floating-point-environment change observed on this thread: (before, after)
    static FPENV_CHANGE: std::cell::Cell<Option<(u32, u32)>> = std::cell::Cell::new(None);
}
/// run `f`, compare the thread's floating-point control state before and after, restore it if it changed
fn fpenv_guard<R>(f: impl FnOnce() -> R) -> R {
    let before = fp_control();
    let r = f();
    let after = fp_control();
    if after != before {
        FPENV_CHANGE.with(|c| {
            if c.get().is_none() {
                c.set(Some((before, after)));
            }
        });
        fp_control_restore(before);
    }
    r
}
fn fpenv_take() -> Option<(u32, u32)> {
    FPENV_CHANGE.with(|c| c.take())
}

fn mk_input<T: Bits>(n: usize, k: usize, salt: u64) -> Vec<Complex<T>> {
    let mut r = crate::util::Rng::new(0x5EED ^ salt ^ (n as u64) << 9);
    (0..n * k).map(|_| Complex::new(T::from64(r.sym()), T::from64(r.sym()))).collect()
}
fn bits<T: Bits>(v: &[Complex<T>]) -> Vec<(u64, u64)> {
    v.iter().map(|c| (c.re.to_bits64(), c.im.to_bits64())).collect()
}

/// one call on private buffers; returns (output bits, input-after bits)
fn do_call<T: Bits>(fft: &dyn Fft<T>, e: Entry, data: &[Complex<T>]) -> (Vec<(u64, u64)>, Vec<(u64, u64)>) {
    let z = Complex::new(T::from64(0.0), T::from64(0.0));
    let mut input = data.to_vec();
    let mut out = vec![z; data.len()];
    let mut scr = vec![z; e.scratch_len(fft)];
    fpenv_guard(|| match e {
        Entry::Process => fft.process(&mut input),
        Entry::InPlace => fft.process_with_scratch(&mut input, &mut scr),
        Entry::OutOfPlace => fft.process_outofplace_with_scratch(&mut input, &mut out, &mut scr),
        Entry::Immut => fft.process_immutable_with_scratch(&input, &mut out, &mut scr),
    });
    if e.has_output() {
        (bits(&out), bits(&input))
    } else {
        (bits(&input), bits(&input))
    }
}

struct ThreadSpec {
    entry: Entry,
    k: usize,
    salt: u64,
}

struct HarnessResult {
    name: String,
    executions: u64,
    completed_bound: Option<u32>,
    points: usize,
    per_thread: Vec<usize>,
    outcomes: usize,
    failure: Option<(Vec<usize>, String)>,
    machinery: Option<String>,
    budget_hit: bool,
    per_bound: Vec<u64>,
    points_vary: bool,
}

/// `fresh`: build a new instance for every execution (so that the very first calls on an instance race with each
/// other: lazily initialised state); otherwise one warmed-up instance is shared by all executions.
fn explore_instance<T: Bits>(name: &str, build: &(dyn Fn() -> Arc<dyn Fft<T>> + Sync), fresh: bool, specs: &[ThreadSpec], max_bound: u32, max_exec: u64) -> HarnessResult {
    let fft = build();
    let n = fft.len();
    let shared = Arc::new(Shared(fft));
    let current: Arc<Mutex<Arc<Shared<Arc<dyn Fft<T>>>>>> = Arc::new(Mutex::new(Arc::clone(&shared)));
    // expected: the same calls made alone, before any exploration (no scheduler on this thread => yield is a no-op)
    let inputs: Vec<Vec<Complex<T>>> = specs.iter().map(|s| mk_input::<T>(n, s.k, s.salt)).collect();
    let expected: Vec<(Vec<(u64, u64)>, Vec<(u64, u64)>)> = specs.iter().zip(&inputs).map(|(s, x)| do_call(shared.0.as_ref(), s.entry, x)).collect();
    let results: Arc<Mutex<Vec<Option<(Vec<(u64, u64)>, Vec<(u64, u64)>)>>>> = Arc::new(Mutex::new(vec![None; specs.len()]));
    let make = || -> Vec<Box<dyn FnOnce() + Send>> {
        for r in results.lock().unwrap().iter_mut() {
            *r = None;
        }
        let inst = if fresh { Arc::new(Shared(build())) } else { Arc::clone(&shared) };
        *current.lock().unwrap() = Arc::clone(&inst);
        specs
            .iter()
            .enumerate()
            .map(|(i, s)| {
                let sh = Arc::clone(&inst);
                let res = Arc::clone(&results);
                let x = Shared(inputs[i].clone());
                let e = s.entry;
                Box::new(move || {
                    let x = x;
                    let r = do_call(sh.0.as_ref(), e, &x.0);
                    if let Some((b, a)) = fpenv_take() {
                        panic!("the call left the calling thread's floating-point control state changed (MXCSR control bits {:#06x} -> {:#06x}: rounding mode / flush-to-zero / denormals-are-zero): later calls on this thread no longer compute what an isolated call computes", b, a);
                    }
                    res.lock().unwrap()[i] = Some(r);
                }) as Box<dyn FnOnce() + Send>
            })
            .collect()
    };
    let check = |x: &Execution| -> Result<u64, String> {
        let res = results.lock().unwrap();
        let mut fp = FNV_OFFSET;
        for (i, s) in specs.iter().enumerate() {
            if let Some(p) = &x.panicked[i] {
                return Err(format!("thread {} ({} k={}) panicked under this schedule: {}", i, s.entry.name(), s.k, p));
            }
            let (out, inp) = res[i].as_ref().ok_or_else(|| format!("thread {} produced no result", i))?;
            if *out != expected[i].0 {
                let first = out.iter().zip(&expected[i].0).position(|(a, b)| a != b).unwrap_or(0);
                return Err(format!("thread {} ({} k={}): output differs bit-wise from the same call made alone (first difference at element {})", i, s.entry.name(), s.k, first));
            }
            if s.entry == Entry::Immut && *inp != expected[i].1 {
                return Err(format!("thread {}: input of the immutable entry point changed", i));
            }
            for (a, b) in out.iter().take(4) {
                fp = fnv_u64(fnv_u64(fp, *a), *b);
            }
        }
        Ok(fp)
    };
    let pool = sched::Pool::new(specs.len());
    let r = sched::explore(&pool, max_bound, max_exec, &make, &check);
    let mut failure = r.failure.clone();
    // replay the failing schedule twice before trusting it
    if let Some((choices, msg)) = &failure {
        let mut verdicts = Vec::new();
        for _ in 0..2 {
            let x = sched::run_once(&pool, choices, make());
            verdicts.push(check(&x).err());
        }
        if verdicts[0].is_none() || verdicts[0] != verdicts[1] {
            return HarnessResult { name: name.into(), executions: r.executions, completed_bound: r.completed_bound, points: r.points_total, per_thread: r.per_thread_points, outcomes: r.distinct_outcomes, failure: None, machinery: Some(format!("failure '{}' did not replay deterministically: {:?}", msg, verdicts)), budget_hit: r.budget_hit, per_bound: r.executions_per_bound, points_vary: r.points_vary };
        }
    }
    // no residue: the same calls made sequentially afterwards are again bit-identical
    if failure.is_none() {
        for (i, s) in specs.iter().enumerate() {
            let last = Arc::clone(&current.lock().unwrap());
            let again = do_call(last.0.as_ref(), s.entry, &inputs[i]);
            if again.0 != expected[i].0 {
                failure = Some((vec![], format!("after the exploration a sequential call ({} k={}) no longer returns the bits of the first isolated call: the instance carries state", s.entry.name(), s.k)));
            }
        }
    }
    HarnessResult { name: name.into(), executions: r.executions, completed_bound: r.completed_bound, points: r.points_total, per_thread: r.per_thread_points, outcomes: r.distinct_outcomes, failure, machinery: r.machinery_error, budget_hit: r.budget_hit, per_bound: r.executions_per_bound, points_vary: r.points_vary }
}

type YldBuilder = Box<dyn Fn() -> Arc<dyn Fft<Yld>> + Send + Sync>;
fn yld_instances() -> Vec<(String, YldBuilder)> {
    const D: FftDirection = FftDirection::Forward;
    const I: FftDirection = FftDirection::Inverse;
    fn b2() -> Arc<dyn Fft<Yld>> {
        Arc::new(Butterfly2::new(D))
    }
    fn b3() -> Arc<dyn Fft<Yld>> {
        Arc::new(Butterfly3::new(D))
    }
    fn b4() -> Arc<dyn Fft<Yld>> {
        Arc::new(Butterfly4::new(D))
    }
    fn b5() -> Arc<dyn Fft<Yld>> {
        Arc::new(Butterfly5::new(D))
    }
    fn b8() -> Arc<dyn Fft<Yld>> {
        Arc::new(Butterfly8::new(D))
    }
    let mut v: Vec<(String, YldBuilder)> = Vec::new();
    v.push(("Butterfly4".into(), Box::new(|| b4())));
    v.push(("Butterfly6(inv)".into(), Box::new(|| Arc::new(Butterfly6::new(I)))));
    v.push(("Dft(3)".into(), Box::new(|| Arc::new(Dft::new(3, D)))));
    v.push(("RadersAlgorithm(Butterfly4)".into(), Box::new(|| Arc::new(RadersAlgorithm::new(b4())))));
    v.push(("BluesteinsAlgorithm(3,Butterfly8)".into(), Box::new(|| Arc::new(BluesteinsAlgorithm::new(3, b8())))));
    v.push(("MixedRadixSmall(3,3)".into(), Box::new(|| Arc::new(MixedRadixSmall::new(b3(), b3())))));
    v.push(("MixedRadix(3,4)".into(), Box::new(|| Arc::new(MixedRadix::new(b3(), b4())))));
    v.push(("GoodThomasAlgorithm(3,4)".into(), Box::new(|| Arc::new(GoodThomasAlgorithm::new(b3(), b4())))));
    v.push(("GoodThomasAlgorithmSmall(3,5)".into(), Box::new(|| Arc::new(GoodThomasAlgorithmSmall::new(b3(), b5())))));
    v.push(("MixedRadix(Bluestein(3,B8),Butterfly2)".into(), Box::new(|| Arc::new(MixedRadix::new(Arc::new(BluesteinsAlgorithm::new(3, b8())), b2())))));
    v.push(("Radix3(9)".into(), Box::new(|| Arc::new(Radix3::new(9, D)))));
    v.push(("Radix4(16)".into(), Box::new(|| Arc::new(Radix4::new(16, D)))));
    for n in [10usize, 15, 36, 37, 59, 64, 35 * 3] {
        v.push((format!("planned(Yld,n={})", n), Box::new(move || FftPlanner::<Yld>::new().plan_fft(n, if n % 2 == 0 { D } else { I }))));
    }
    v
}

fn history_check<T: Real>(pk: PK, n: usize, d: FftDirection, rep: &mut Report) {
    let mut pl = match AnyPlanner::<T>::new(pk) {
        Some(p) => p,
        None => return,
    };
    let fft = match plan_catch(&mut pl, n, d) {
        Ok(f) => f,
        Err(_) => return,
    };
    // alphabet: entry x input x k
    let mut letters: Vec<(Entry, u64, usize)> = Vec::new();
    for e in Entry::ALL {
        for salt in [1u64, 2] {
            for k in [1usize, 2] {
                letters.push((e, salt, k));
            }
        }
    }
    let inputs: Vec<Vec<C<T>>> = letters.iter().map(|&(_, salt, k)| dense_vec::<T>(n * k, salt * 1000 + k as u64)).collect();
    // expected: each letter as the FIRST call on a FRESH instance
    let mut expected: Vec<Vec<C<T>>> = Vec::new();
    for (li, &(e, _, _)) in letters.iter().enumerate() {
        let mut p2 = AnyPlanner::<T>::new(pk).unwrap();
        let f2 = p2.plan(n, d);
        match call_plain(f2.as_ref(), e, &inputs[li]).out {
            Some(o) => expected.push(o),
            None => return, // C09 owns unexpected panics
        }
    }
    rep.states += 1;
    let l = letters.len();
    // a "bad frame" (one NaN and one Inf sample): leaves non-finite garbage in every reused buffer
    let bad: Vec<C<T>> = {
        let mut v = dense_vec::<T>(n, 77);
        if n > 0 {
            v[0] = C::new(T::from64(f64::NAN), T::from64(1.0));
            v[n / 2] = C::new(T::from64(f64::INFINITY), T::from64(-1.0));
        }
        v
    };
    // the caller keeps ONE scratch buffer per entry point and ONE output buffer for the whole history (never re-zeroed)
    let z = C::new(T::from64(0.0), T::from64(0.0));
    let mut scr: Vec<Vec<C<T>>> = Entry::ALL.iter().map(|e| vec![z; e.scratch_len(fft.as_ref())]).collect();
    let mut outbuf: Vec<C<T>> = vec![z; 2 * n];
    let mut run = |seq: &[usize], bad_first: bool, rep: &mut Report| {
        if bad_first {
            for (ei, e) in Entry::ALL.iter().enumerate() {
                let mut data = bad.clone();
                let _ = std::panic::catch_unwind(std::panic::AssertUnwindSafe(|| {
                    fpenv_guard(|| match e {
                        Entry::Process => fft.process(&mut data),
                        Entry::InPlace => fft.process_with_scratch(&mut data, &mut scr[ei]),
                        Entry::OutOfPlace => fft.process_outofplace_with_scratch(&mut data, &mut outbuf[..n], &mut scr[ei]),
                        Entry::Immut => fft.process_immutable_with_scratch(&data, &mut outbuf[..n], &mut scr[ei]),
                    })
                }));
            }
        }
        for (pos, &li) in seq.iter().enumerate() {
            let (e, salt, k) = letters[li];
            let ei = Entry::ALL.iter().position(|x| *x == e).unwrap();
            let mut data = inputs[li].clone();
            let res = std::panic::catch_unwind(std::panic::AssertUnwindSafe(|| {
                fpenv_guard(|| match e {
                    Entry::Process => fft.process(&mut data),
                    Entry::InPlace => fft.process_with_scratch(&mut data, &mut scr[ei]),
                    Entry::OutOfPlace => fft.process_outofplace_with_scratch(&mut data, &mut outbuf[..k * n], &mut scr[ei]),
                    Entry::Immut => fft.process_immutable_with_scratch(&data, &mut outbuf[..k * n], &mut scr[ei]),
                })
            }));
            rep.transitions += 1;
            if let Some((b, a)) = fpenv_take() {
                let sq: Vec<String> = seq.iter().map(|&x| format!("{}:{}:k{}", letters[x].0.name(), letters[x].1, letters[x].2)).collect();
                rep.violate(
                    format!("C11|part=history|pk={}|T={}|dir={}|n={}|seq={}|pos={}|fpenv", pk.name(), T::NAME, dir_name(d), n, sq.join(","), pos),
                    format!("call {} of the history ({} k={}) left the calling thread's floating-point control state changed (MXCSR control bits {:#06x} -> {:#06x}: rounding mode / flush-to-zero / denormals-are-zero); every later call on this thread then computes something else than an isolated call", pos, e.name(), k, b, a),
                    Json::Null,
                );
            }
            let got: &[C<T>] = if e.has_output() { &outbuf[..k * n] } else { &data };
            let ok = res.is_ok() && same_bits(got, &expected[li]);
            if !ok {
                let sq: Vec<String> = seq.iter().map(|&x| format!("{}:{}:k{}", letters[x].0.name(), letters[x].1, letters[x].2)).collect();
                rep.violate(
                    format!("C11|part=history|pk={}|T={}|dir={}|n={}|seq={}{}|pos={}", pk.name(), T::NAME, dir_name(d), n, if bad_first { "badframe," } else { "" }, sq.join(","), pos),
                    format!("call {} of the history ({} input {} k={}, buffers reused across calls{}) does not return the bits of the same call made first on a fresh instance with fresh buffers", pos, e.name(), salt, k, if bad_first { ", after a frame containing NaN/Inf" } else { "" }),
                    Json::Null,
                );
            }
        }
        rep.evaluations += 1;
        if n >= 2 {
            rep.distinct_nontrivial += 1;
        }
    };
    for a in 0..l {
        run(&[a], false, rep);
        run(&[a], true, rep);
        for b in 0..l {
            run(&[a, b], false, rep);
            for c in 0..l {
                run(&[a, b, c], false, rep);
            }
        }
    }
}

/// Auxiliary, NOT what the claimed level rests on: 16 free-running OS threads on one shared instance, bitwise oracle.
/// This is sampling of schedules; it exists for state that is written and read with no scheduling point in between.
fn free_running<T: Real>(pk: PK, n: usize, rounds: usize) -> (u64, Option<String>) {
    let mut pl = match AnyPlanner::<T>::new(pk) {
        Some(p) => p,
        None => return (0, None),
    };
    let fft = match plan_catch(&mut pl, n, FftDirection::Forward) {
        Ok(f) => f,
        Err(_) => return (0, None),
    };
    let shared = Arc::new(Shared(fft));
    let nthreads = 16;
    // every thread has its own input; expected results come from a second, fresh instance
    let fresh = AnyPlanner::<T>::new(pk).unwrap().plan(n, FftDirection::Forward);
    let cases: Vec<(Entry, usize, Vec<C<T>>, Vec<C<T>>)> = (0..nthreads)
        .map(|t| {
            let e = Entry::ALL[t % 4];
            let k = 1 + t % 2;
            let x = dense_vec::<T>(n * k, 500 + t as u64);
            let want = call_plain(fresh.as_ref(), e, &x).out.unwrap_or_default();
            (e, k, x, want)
        })
        .collect();
    let cases = Arc::new(Shared(cases));
    let bad: Arc<Mutex<Option<String>>> = Arc::new(Mutex::new(None));
    let start = Arc::new(std::sync::Barrier::new(nthreads));
    let mut calls = 0u64;
    std::thread::scope(|s| {
        let mut hs = Vec::new();
        for t in 0..nthreads {
            let (sh, cs, bad, start) = (Arc::clone(&shared), Arc::clone(&cases), Arc::clone(&bad), Arc::clone(&start));
            hs.push(s.spawn(move || {
                let (sh, cs) = (sh, cs);
                let (e, k, x, want) = &cs.0[t];
                start.wait();
                let mut c = 0u64;
                for r in 0..rounds {
                    let got = call_plain(sh.0.as_ref(), *e, x).out;
                    c += 1;
                    let ok = got.as_ref().map(|g| same_bits(g, want)).unwrap_or(false);
                    if !ok {
                        *bad.lock().unwrap() = Some(format!("thread {} round {}: {} k={} on the shared instance differs bit-wise from the same call on a private fresh instance", t, r, e.name(), k));
                        break;
                    }
                }
                c
            }));
        }
        for h in hs {
            calls += h.join().unwrap_or(0);
        }
    });
    let b = bad.lock().unwrap().clone();
    (calls, b)
}

fn probe(rep: &mut Report) {
    let manifest = root().join("probe").join("Cargo.toml");
    let out = std::process::Command::new("cargo")
        .arg("check")
        .arg("--offline")
        .arg("--manifest-path")
        .arg(&manifest)
        .env("CARGO_TARGET_DIR", root().join("target").join("probe"))
        .env("RUSTFLAGS", "--cfg rustfft_verif")
        .output();
    match out {
        Err(e) => rep.machinery_errors.push(format!("cannot run cargo for the Send/Sync probe: {}", e)),
        Ok(o) => {
            let text = String::from_utf8_lossy(&o.stderr).to_string();
            rep.evaluations += 1;
            if o.status.success() {
                rep.set("send_sync_probe", "compiled: every planner, Arc<dyn Fft<T>> and every public algorithm type is Send + Sync");
            } else if text.contains("cannot be sent between threads safely") || text.contains("cannot be shared between threads safely") || text.contains("`Send`") || text.contains("`Sync`") {
                let first: String = text.lines().filter(|l| l.starts_with("error") || l.contains("-->") || l.contains("cannot be")).take(12).collect::<Vec<_>>().join("\n");
                rep.violate("C11|part=send_sync_probe".into(), "a planner or transform type is no longer Send + Sync (compiler output in the replay file)".into(), Json::Str(first));
            } else {
                rep.machinery_errors.push(format!("Send/Sync probe failed to compile for another reason: {}", text.lines().filter(|l| l.starts_with("error")).take(3).collect::<Vec<_>>().join(" | ")));
            }
        }
    }
}

fn source_scan(rep: &mut Report) {
    // binding of the scheduling-point model to the code: state guarded by something other than our points is invisible
    let mut hits: Vec<String> = Vec::new();
    fn walk(dir: &std::path::Path, hits: &mut Vec<String>) {
        if let Ok(rd) = std::fs::read_dir(dir) {
            for e in rd.flatten() {
                let p = e.path();
                if p.is_dir() {
                    let name = p.file_name().and_then(|s| s.to_str()).unwrap_or("");
                    if name == "neon" || name == "wasm_simd" {
                        continue;
                    }
                    walk(&p, hits);
                } else if p.extension().and_then(|s| s.to_str()) == Some("rs") && p.file_name().and_then(|s| s.to_str()) != Some("verif_hooks.rs") {
                    if let Ok(text) = std::fs::read_to_string(&p) {
                        for (ln, line) in text.lines().enumerate() {
                            let t = line.trim_start();
                            if t.starts_with("//") {
                                continue;
                            }
                            for pat in ["UnsafeCell", "RefCell", "Cell<", "static mut", "unsafe impl Send", "unsafe impl Sync", "unsafe impl<", "thread_local!", "lazy_static", "OnceCell", "OnceLock", "AtomicUsize", "AtomicU", "AtomicPtr", "AtomicBool", "Mutex<", "RwLock<", "as *mut"] {
                                if line.contains(pat) {
                                    if pat == "unsafe impl<" && !(line.contains("Send") || line.contains("Sync")) {
                                        continue;
                                    }
                                    if pat == "as *mut" && !(line.contains("*const") && line.contains("as *mut")) {
                                        // only shared-to-mutable pointer casts are of interest
                                        continue;
                                    }
                                    if hits.len() < 30 {
                                        hits.push(format!("{}:{}: {}", p.display(), ln + 1, t.chars().take(100).collect::<String>()));
                                    }
                                }
                            }
                        }
                    }
                }
            }
        }
    }
    let repo = std::env::var("VERIF_REPO").unwrap_or_else(|_| "/repo".to_string());
    walk(&std::path::Path::new(&repo).join("src"), &mut hits);
    for h in &hits {
        println!("NOTE assumption-weakened: possible shared mutable state outside the scheduling-point model: {}", h);
    }
    rep.set("source_scan_hits", Json::Arr(hits.into_iter().map(Json::Str).collect()));
}

pub fn run(ctx: &Ctx) -> i32 {
    let t = ctx.tier;
    if let Err(e) = sched::self_check() {
        eprintln!("MACHINERY-ERROR: {}", e);
        return 2;
    }
    rustfft::verif_hooks::set_sched_hook(Some(sched::h2_hook));
    let mut rep = Report::new();
    if let Some(r) = &ctx.replay {
        // replay: re-run the whole harness the key names (small) and report
        let key = r.get("key").and_then(|k| k.as_str()).unwrap_or("").to_string();
        println!("replay of {}: re-running the named harness", key);
        std::env::set_var("VERIF_EVIDENCE_PART", "replay");
        std::env::set_var("VERIF_C11_ONLY", key.clone());
    }
    let only = std::env::var("VERIF_C11_ONLY").ok();
    let want = |name: &str| -> bool { only.as_ref().map(|k| k.contains(&format!("harness={}|", name)) || k.contains("part=history") || k.contains("part=send_sync")).unwrap_or(true) };
    // ---- schedule exploration
    enum Job {
        Yld(String, YldBuilder),
        F32(String, PK, usize),
        F64(String, PK, usize),
    }
    let mut jobs: Vec<Shared<Job>> = Vec::new();
    for (name, f) in yld_instances() {
        jobs.push(Shared(Job::Yld(name, f)));
    }
    for pk in [PK::Scalar, PK::Sse, PK::Avx] {
        for n in [8usize, 12, 37, 59, 72, 144, 1184] {
            jobs.push(Shared(Job::F32(format!("planned({},f32,n={})", pk.name(), n), pk, n)));
            jobs.push(Shared(Job::F64(format!("planned({},f64,n={})", pk.name(), n), pk, n)));
        }
    }
    let specs2 = [ThreadSpec { entry: Entry::InPlace, k: 1, salt: 1 }, ThreadSpec { entry: Entry::Immut, k: 2, salt: 2 }];
    let specs2b = [ThreadSpec { entry: Entry::OutOfPlace, k: 2, salt: 3 }, ThreadSpec { entry: Entry::Process, k: 1, salt: 4 }];
    let specs3 = [ThreadSpec { entry: Entry::InPlace, k: 1, salt: 1 }, ThreadSpec { entry: Entry::Immut, k: 1, salt: 2 }, ThreadSpec { entry: Entry::OutOfPlace, k: 1, salt: 5 }];
    let budget_op: u64 = t.pick(10_000, 600_000);
    let budget_chunk: u64 = t.pick(60_000, 600_000);
    let results: Vec<Vec<HarnessResult>> = par_map(&jobs, |_, job| {
        let mut out = Vec::new();
        match &job.0 {
            Job::Yld(name, f) => {
                if !want(name) {
                    return out;
                }
                // first calls on a fresh instance (lazily initialised state), then a warmed-up shared instance
                out.push(explore_instance::<Yld>(&format!("{}#fresh", name), f.as_ref(), true, &specs2, t.pick(2, 3), budget_op));
                out.push(explore_instance::<Yld>(name, f.as_ref(), false, &specs2, t.pick(1, 2), budget_op / 2));
                if t == Tier::Thorough {
                    out.push(explore_instance::<Yld>(&format!("{}#b", name), f.as_ref(), true, &specs2b, 2, budget_op));
                    out.push(explore_instance::<Yld>(&format!("{}#3threads", name), f.as_ref(), true, &specs3, 1, budget_op));
                }
            }
            Job::F32(name, pk, n) => {
                if !want(name) {
                    return out;
                }
                let (pk, n) = (*pk, *n);
                if AnyPlanner::<f32>::new(pk).is_some() {
                    let b = move || -> Arc<dyn Fft<f32>> { AnyPlanner::<f32>::new(pk).unwrap().plan(n, FftDirection::Forward) };
                    out.push(explore_instance::<f32>(&format!("{}#fresh", name), &b, true, &specs2, t.pick(3, 6), budget_chunk));
                    out.push(explore_instance::<f32>(name, &b, false, &specs2b, t.pick(2, 4), budget_chunk / 2));
                    if t == Tier::Thorough {
                        out.push(explore_instance::<f32>(&format!("{}#3threads", name), &b, true, &specs3, 3, budget_chunk));
                    }
                }
            }
            Job::F64(name, pk, n) => {
                if !want(name) {
                    return out;
                }
                let (pk, n) = (*pk, *n);
                if AnyPlanner::<f64>::new(pk).is_some() {
                    let b = move || -> Arc<dyn Fft<f64>> { AnyPlanner::<f64>::new(pk).unwrap().plan(n, FftDirection::Inverse) };
                    out.push(explore_instance::<f64>(&format!("{}#fresh", name), &b, true, &specs2b, t.pick(3, 6), budget_chunk));
                    out.push(explore_instance::<f64>(name, &b, false, &specs2, t.pick(2, 4), budget_chunk / 2));
                    if t == Tier::Thorough {
                        out.push(explore_instance::<f64>(&format!("{}#3threads", name), &b, true, &specs3, 3, budget_chunk));
                    }
                }
            }
        }
        out
    });
    let mut table = Vec::new();
    let mut vacuous = 0;
    for hr in results.into_iter().flatten() {
        rep.evaluations += hr.executions;
        rep.transitions += hr.executions;
        rep.states += 1;
        if hr.points > 2 {
            rep.distinct_nontrivial += hr.executions;
        } else {
            vacuous += 1;
        }
        if let Some(m) = &hr.machinery {
            rep.machinery_errors.push(format!("{}: {}", hr.name, m));
        }
        if let Some((choices, msg)) = &hr.failure {
            rep.violate(
                format!("C11|part=schedule|harness={}|", hr.name),
                format!("{} [schedule of {} choices, {} non-default]", msg, choices.len(), choices.iter().filter(|c| **c != 0).count()),
                Json::obj().with("schedule", Json::Arr(choices.iter().map(|c| Json::Int(*c as i64)).collect())).with("harness", hr.name.as_str()),
            );
        }
        table.push(
            Json::obj()
                .with("harness", hr.name.as_str())
                .with("scheduling_points_per_execution", hr.points)
                .with("points_per_thread", Json::Arr(hr.per_thread.iter().map(|p| Json::Int(*p as i64)).collect()))
                .with("executions", hr.executions)
                .with("executions_per_bound", Json::Arr(hr.per_bound.iter().map(|p| Json::Int(*p as i64)).collect()))
                .with("completed_preemption_bound", hr.completed_bound.map(|b| Json::Int(b as i64)).unwrap_or(Json::Null))
                .with("budget_hit", hr.budget_hit)
                .with("points_per_thread_vary_with_schedule", hr.points_vary)
                .with("distinct_outcomes", hr.outcomes),
        );
    }
    rep.sample(table.first().cloned().unwrap_or(Json::Null));
    rep.sample(table.last().cloned().unwrap_or(Json::Null));
    rep.set("harnesses", Json::Arr(table));
    rep.set("harnesses_with_no_interleaving_points", vacuous as i64);
    // ---- history quantifier
    if only.as_ref().map(|k| k.contains("part=history")).unwrap_or(true) {
        let mut hjobs: Vec<(PK, usize, bool)> = Vec::new();
        for pk in PK::ALL {
            for n in t.pick(vec![8usize, 37, 59, 72, 83, 100], vec![8usize, 12, 30, 37, 59, 64, 72, 83, 100, 144, 166, 243, 1019, 1184]) {
                hjobs.push((pk, n, true));
                hjobs.push((pk, n, false));
            }
        }
        let parts = par_map(&hjobs, |_, &(pk, n, is32)| {
            let mut r = Report::new();
            for d in DIRS {
                if is32 {
                    history_check::<f32>(pk, n, d, &mut r);
                } else {
                    history_check::<f64>(pk, n, d, &mut r);
                }
            }
            r
        });
        for p in parts {
            rep.merge(p);
        }
    }
    // ---- auxiliary free-running pass (sampling; see DESIGN §3 C11 'honest limit')
    if only.is_none() {
        let mut calls = 0u64;
        for pk in PK::DISTINCT {
            for n in [16usize, 37, 83, 96, 1184] {
                let (c1, b1) = free_running::<f32>(pk, n, t.pick(150, 3000));
                let (c2, b2) = free_running::<f64>(pk, n, t.pick(150, 3000));
                calls += c1 + c2;
                for (ty, b) in [("f32", b1), ("f64", b2)] {
                    if let Some(msg) = b {
                        rep.violate(format!("C11|part=free_running|pk={}|T={}|n={}", pk.name(), ty, n), format!("{} (free-running threads: not replayable schedule-by-schedule, re-run the check to see it again)", msg), Json::Null);
                    }
                }
            }
        }
        rep.set("auxiliary_free_running_calls_SAMPLING", calls);
    }
    // ---- Send / Sync and source scan
    if only.as_ref().map(|k| k.contains("part=send_sync")).unwrap_or(true) {
        probe(&mut rep);
    }
    source_scan(&mut rep);
    rep.rule = "schedule part: one shared instance, 2 threads (3 in thorough) making different entry-point calls with different chunk counts and inputs on private buffers; every interleaving up to the completed preemption bound listed per harness (op-granular scheduling points for the portable code through the Yld element type, chunk-granular through hook H2 for SSE/AVX code); oracle: bit-identical to the same call made alone, input of the immutable call untouched, sequential call afterwards again bit-identical. history part: all call sequences of length <= 3 over the alphabet {4 entry points} x {2 inputs} x {k=1,2} (4368 sequences per instance, plus each letter after a 'bad frame' containing NaN/Inf through all entry points) on one instance with the caller's scratch and output buffers REUSED across the whole history, each call bit-identical to the same call made first on a fresh instance with fresh buffers. Send/Sync: probe crate. A harness is non-trivial if an execution has more than 2 scheduling points.".into();
    rep.exhaustive = true;
    rep.assumptions = vec![
        "state written and read with no scheduling point in between (e.g. a scratch cached inside an SSE/AVX leaf kernel) is invisible to the controlled scheduler; covered only by the source-scan note".into(),
        "OS threads serialised by a baton: memory-model effects (reordering) are not modelled".into(),
    ];
    finalize(ctx, rep)
}
