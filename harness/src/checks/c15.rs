//! C15: the immutable-input entry point never modifies its input (including calls that end in a panic).
use crate::framework::{finalize, Ctx};
use crate::memcheck::{self, Mode};
use crate::util::Json;

pub fn run(ctx: &Ctx) -> i32 {
    let mut rep = memcheck::run_parent(Mode::C15, ctx);
    if ctx.replay.is_some() {
        std::env::set_var("VERIF_EVIDENCE_PART", "replay");
        return finalize(ctx, rep);
    }
    let (l, dense_n) = memcheck::mem_lens(Mode::C15, ctx.tier);
    rep.set("lengths_run", l.len());
    rep.set("max_len", l.iter().copied().max().unwrap_or(0));
    rep.sample(Json::Str("C15|pk=avx|T=f64|dir=fwd|n=59|entry=immut|data=472|out=472|scratch=<advertised>|place=end  (k=8, input mapping PROT_READ)".into()));
    rep.sample(Json::Str("C15|pk=scalar|T=f32|dir=inv|n=64|entry=immut|data=129|out=129|scratch=<advertised>|place=start  (ends in a panic; input must still be intact)".into()));
    rep.rule = format!(
        "build flavour {fl}: planners x {{f32,f64}} x {{fwd,inv}} x every n in 1..={dn} (plus pool lengths up to {ph}) x process_immutable_with_scratch x chunk counts 1..=8 and the full C09 shape product (data x output x scratch deviations, including every shape that ends in a panic) x two buffer placements; the input lives in a PROT_READ mapping during the call, so any store faults (a write-then-restore cannot hide), and after return OR unwind its bits are compared with a snapshot. Non-trivial: n >= 2.",
        fl = ctx.flavour,
        dn = dense_n,
        ph = ctx.tier.pick(1 << 13, 1 << 14)
    );
    rep.exhaustive = true;
    rep.assumptions = vec!["a fault on the read-only input mapping is attributed to the executing case by the worker's signal handler".into()];
    finalize(ctx, rep)
}
