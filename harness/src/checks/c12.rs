//! C12: public algorithm constructors compose into correct transforms.
//! Every expression tree of a stated finite set is built (inside each constructor's documented preconditions)
//! and checked: exactly in a prime field (C01, C07, C08), and in f32/f64 inside guard-paged buffers (C01, C03, C09).
use crate::checks::c09::{shape_model, Expect};
use crate::core::*;
use crate::exact::{self, ExactStats, Table};
use crate::fp::{self, Fp};
use crate::framework::{finalize, parse_key, Ctx, Report, Tier};
use crate::inputs;
use crate::mem::{self, Arena, Place, NFIELDS};
use crate::memcheck::{install_worker_panic_hook, run_stripe_generic, LAST_PANIC};
use crate::refdft::{l2_error, Ref};
use crate::util::{gcd, is_prime, threads, Json, Rng};
use rustfft::algorithm::butterflies::*;
use rustfft::algorithm::*;
use rustfft::{Fft, FftDirection, FftNum};
use std::sync::{Arc, Mutex};

#[derive(Clone, Debug, PartialEq)]
pub enum Tree {
    Dft(usize),
    Bf(usize),
    R4(usize),
    R3(usize),
    Planned(PK, usize),
    /// ADVERSARIAL leaf: a user-written, entirely safe `Fft` implementation that answers like a butterfly of length .0
    /// while the composite is being constructed and like a butterfly of length .1 afterwards (len() and all three
    /// scratch lengths change, calls are forwarded to the new butterfly). Safe code may do that; memory safety of the
    /// composite must not depend on the inner transform keeping its promises (C03 only, no correctness oracle).
    Shifty(usize, usize),
    MR(Box<Tree>, Box<Tree>),
    MRS(Box<Tree>, Box<Tree>),
    GT(Box<Tree>, Box<Tree>),
    GTS(Box<Tree>, Box<Tree>),
    Rader(Box<Tree>),
    Blue(usize, Box<Tree>),
    R4B(u32, Box<Tree>),
    R3B(u32, Box<Tree>),
}
pub const BUTTERFLIES: [usize; 21] = [1, 2, 3, 4, 5, 6, 7, 8, 9, 11, 12, 13, 16, 17, 19, 23, 24, 27, 29, 31, 32];

impl Tree {
    pub fn len(&self) -> usize {
        match self {
            Tree::Dft(n) | Tree::Bf(n) | Tree::R4(n) | Tree::R3(n) | Tree::Planned(_, n) => *n,
            Tree::Shifty(a, _) => *a,
            Tree::MR(a, b) | Tree::MRS(a, b) | Tree::GT(a, b) | Tree::GTS(a, b) => a.len() * b.len(),
            Tree::Rader(a) => a.len() + 1,
            Tree::Blue(n, _) => *n,
            Tree::R4B(k, a) => a.len() << (2 * k),
            Tree::R3B(k, a) => a.len() * 3usize.pow(*k),
        }
    }
    pub fn depth(&self) -> usize {
        match self {
            Tree::Dft(_) | Tree::Bf(_) | Tree::R4(_) | Tree::R3(_) | Tree::Planned(..) | Tree::Shifty(..) => 0,
            Tree::MR(a, b) | Tree::MRS(a, b) | Tree::GT(a, b) | Tree::GTS(a, b) => 1 + a.depth().max(b.depth()),
            Tree::Rader(a) | Tree::Blue(_, a) | Tree::R4B(_, a) | Tree::R3B(_, a) => 1 + a.depth(),
        }
    }
    pub fn describe(&self) -> String {
        match self {
            Tree::Dft(n) => format!("Dft({})", n),
            Tree::Bf(n) => format!("Butterfly{}", n),
            Tree::R4(n) => format!("Radix4::new({})", n),
            Tree::R3(n) => format!("Radix3::new({})", n),
            Tree::Planned(pk, n) => format!("planned:{}({})", pk.name(), n),
            Tree::Shifty(a, b) => format!("ShiftyFft(len {} while constructing then {})", a, b),
            Tree::MR(a, b) => format!("MixedRadix({},{})", a.describe(), b.describe()),
            Tree::MRS(a, b) => format!("MixedRadixSmall({},{})", a.describe(), b.describe()),
            Tree::GT(a, b) => format!("GoodThomasAlgorithm({},{})", a.describe(), b.describe()),
            Tree::GTS(a, b) => format!("GoodThomasAlgorithmSmall({},{})", a.describe(), b.describe()),
            Tree::Rader(a) => format!("RadersAlgorithm({})", a.describe()),
            Tree::Blue(n, a) => format!("BluesteinsAlgorithm({};{})", n, a.describe()),
            Tree::R4B(k, a) => format!("Radix4::new_with_base({};{})", k, a.describe()),
            Tree::R3B(k, a) => format!("Radix3::new_with_base({};{})", k, a.describe()),
        }
    }
    fn has_planned(&self) -> bool {
        match self {
            Tree::Planned(..) => true,
            Tree::Dft(_) | Tree::Bf(_) | Tree::R4(_) | Tree::R3(_) | Tree::Shifty(..) => false,
            Tree::MR(a, b) | Tree::MRS(a, b) | Tree::GT(a, b) | Tree::GTS(a, b) => a.has_planned() || b.has_planned(),
            Tree::Rader(a) | Tree::Blue(_, a) | Tree::R4B(_, a) | Tree::R3B(_, a) => a.has_planned(),
        }
    }
}

impl Tree {
    pub fn has_shifty(&self) -> bool {
        match self {
            Tree::Shifty(..) => true,
            Tree::Dft(_) | Tree::Bf(_) | Tree::R4(_) | Tree::R3(_) | Tree::Planned(..) => false,
            Tree::MR(a, b) | Tree::MRS(a, b) | Tree::GT(a, b) | Tree::GTS(a, b) => a.has_shifty() || b.has_shifty(),
            Tree::Rader(a) | Tree::Blue(_, a) | Tree::R4B(_, a) | Tree::R3B(_, a) => a.has_shifty(),
        }
    }
}

/// false while composites are being constructed, true afterwards (one worker process = one thread of control)
static SHIFTED: std::sync::atomic::AtomicBool = std::sync::atomic::AtomicBool::new(false);
struct ShiftyFft<T> {
    before: Arc<dyn Fft<T>>,
    after: Arc<dyn Fft<T>>,
}
impl<T: FftNum> ShiftyFft<T> {
    fn cur(&self) -> &Arc<dyn Fft<T>> {
        if SHIFTED.load(std::sync::atomic::Ordering::SeqCst) {
            &self.after
        } else {
            &self.before
        }
    }
}
impl<T: FftNum> rustfft::Length for ShiftyFft<T> {
    fn len(&self) -> usize {
        self.cur().len()
    }
}
impl<T: FftNum> rustfft::Direction for ShiftyFft<T> {
    fn fft_direction(&self) -> FftDirection {
        self.before.fft_direction()
    }
}
impl<T: FftNum> Fft<T> for ShiftyFft<T> {
    fn process_with_scratch(&self, buffer: &mut [num_complex::Complex<T>], scratch: &mut [num_complex::Complex<T>]) {
        self.cur().process_with_scratch(buffer, scratch)
    }
    fn process_outofplace_with_scratch(&self, input: &mut [num_complex::Complex<T>], output: &mut [num_complex::Complex<T>], scratch: &mut [num_complex::Complex<T>]) {
        self.cur().process_outofplace_with_scratch(input, output, scratch)
    }
    fn process_immutable_with_scratch(&self, input: &[num_complex::Complex<T>], output: &mut [num_complex::Complex<T>], scratch: &mut [num_complex::Complex<T>]) {
        self.cur().process_immutable_with_scratch(input, output, scratch)
    }
    fn get_inplace_scratch_len(&self) -> usize {
        self.cur().get_inplace_scratch_len()
    }
    fn get_outofplace_scratch_len(&self) -> usize {
        self.cur().get_outofplace_scratch_len()
    }
    fn get_immutable_scratch_len(&self) -> usize {
        self.cur().get_immutable_scratch_len()
    }
}

fn butterfly<T: FftNum>(n: usize, d: FftDirection) -> Arc<dyn Fft<T>> {
    match n {
        1 => Arc::new(Butterfly1::new(d)),
        2 => Arc::new(Butterfly2::new(d)),
        3 => Arc::new(Butterfly3::new(d)),
        4 => Arc::new(Butterfly4::new(d)),
        5 => Arc::new(Butterfly5::new(d)),
        6 => Arc::new(Butterfly6::new(d)),
        7 => Arc::new(Butterfly7::new(d)),
        8 => Arc::new(Butterfly8::new(d)),
        9 => Arc::new(Butterfly9::new(d)),
        11 => Arc::new(Butterfly11::new(d)),
        12 => Arc::new(Butterfly12::new(d)),
        13 => Arc::new(Butterfly13::new(d)),
        16 => Arc::new(Butterfly16::new(d)),
        17 => Arc::new(Butterfly17::new(d)),
        19 => Arc::new(Butterfly19::new(d)),
        23 => Arc::new(Butterfly23::new(d)),
        24 => Arc::new(Butterfly24::new(d)),
        27 => Arc::new(Butterfly27::new(d)),
        29 => Arc::new(Butterfly29::new(d)),
        31 => Arc::new(Butterfly31::new(d)),
        32 => Arc::new(Butterfly32::new(d)),
        _ => panic!("harness: no butterfly of length {}", n),
    }
}

/// `Err(reason)`: the tree is outside the documented / asserted preconditions of a constructor (not built).
/// A panic inside a constructor whose preconditions hold propagates to the caller (=> violation).
pub fn build<T: FftNum>(t: &Tree, d: FftDirection) -> Result<Arc<dyn Fft<T>>, String> {
    fn small_ok<T: FftNum>(f: &Arc<dyn Fft<T>>) -> bool {
        f.get_outofplace_scratch_len() == 0 && f.get_inplace_scratch_len() <= f.len()
    }
    Ok(match t {
        Tree::Dft(n) => Arc::new(Dft::new(*n, d)),
        Tree::Bf(n) => butterfly::<T>(*n, d),
        Tree::R4(n) => {
            if !n.is_power_of_two() {
                return Err("Radix4::new needs a power of two".into());
            }
            Arc::new(Radix4::new(*n, d))
        }
        Tree::R3(n) => {
            let mut m = *n;
            while m % 3 == 0 && m > 1 {
                m /= 3;
            }
            if m != 1 {
                return Err("Radix3::new needs a power of three".into());
            }
            Arc::new(Radix3::new(*n, d))
        }
        Tree::Shifty(a, b) => Arc::new(ShiftyFft { before: butterfly::<T>(*a, d), after: butterfly::<T>(*b, d) }),
        Tree::Planned(pk, n) => {
            let mut pl = AnyPlanner::<T>::new(*pk).or_else(|| AnyPlanner::<T>::new(PK::Scalar)).unwrap();
            pl.plan(*n, d)
        }
        Tree::MR(a, b) => Arc::new(MixedRadix::new(build::<T>(a, d)?, build::<T>(b, d)?)),
        Tree::MRS(a, b) => {
            let (x, y) = (build::<T>(a, d)?, build::<T>(b, d)?);
            if !small_ok(&x) || !small_ok(&y) {
                return Err("MixedRadixSmall needs children with 0 out-of-place scratch and in-place scratch <= len".into());
            }
            Arc::new(MixedRadixSmall::new(x, y))
        }
        Tree::GT(a, b) => {
            if gcd(a.len() as u64, b.len() as u64) != 1 {
                return Err("Good-Thomas needs coprime lengths".into());
            }
            Arc::new(GoodThomasAlgorithm::new(build::<T>(a, d)?, build::<T>(b, d)?))
        }
        Tree::GTS(a, b) => {
            if gcd(a.len() as u64, b.len() as u64) != 1 {
                return Err("Good-Thomas needs coprime lengths".into());
            }
            let (x, y) = (build::<T>(a, d)?, build::<T>(b, d)?);
            if !small_ok(&x) || !small_ok(&y) {
                return Err("GoodThomasAlgorithmSmall needs children with 0 out-of-place scratch and in-place scratch <= len".into());
            }
            Arc::new(GoodThomasAlgorithmSmall::new(x, y))
        }
        Tree::Rader(a) => {
            if !is_prime(a.len() as u64 + 1) {
                return Err("Rader needs inner.len()+1 prime".into());
            }
            Arc::new(RadersAlgorithm::new(build::<T>(a, d)?))
        }
        Tree::Blue(n, a) => {
            if *n == 0 || a.len() < 2 * n - 1 {
                return Err("Bluestein needs inner.len() >= 2*len-1".into());
            }
            Arc::new(BluesteinsAlgorithm::new(*n, build::<T>(a, d)?))
        }
        Tree::R4B(k, a) => Arc::new(Radix4::new_with_base(*k, build::<T>(a, d)?)),
        Tree::R3B(k, a) => Arc::new(Radix3::new_with_base(*k, build::<T>(a, d)?)),
    })
}

fn unary_over(a: &Tree, maxlen: usize, out: &mut Vec<Tree>) {
    let n = a.len();
    if is_prime(n as u64 + 1) && n + 1 <= maxlen {
        out.push(Tree::Rader(Box::new(a.clone())));
    }
    // Bluestein lengths: 1, 2, 3, a prime, the maximum and maximum-1
    let maxb = (n + 1) / 2;
    let mut ls = vec![1usize, 2, 3, maxb, maxb.saturating_sub(1)];
    if let Some(p) = (2..=maxb).rev().find(|&p| is_prime(p as u64)) {
        ls.push(p);
    }
    ls.sort();
    ls.dedup();
    for l in ls {
        if l >= 1 && 2 * l - 1 <= n && l <= maxlen {
            out.push(Tree::Blue(l, Box::new(a.clone())));
        }
    }
    for k in 0..=2u32 {
        if (n << (2 * k)) <= maxlen {
            out.push(Tree::R4B(k, Box::new(a.clone())));
        }
        if n * 3usize.pow(k) <= maxlen {
            out.push(Tree::R3B(k, Box::new(a.clone())));
        }
    }
}
fn binary_over(a: &Tree, b: &Tree, maxlen: usize, out: &mut Vec<Tree>) {
    if a.len() * b.len() > maxlen {
        return;
    }
    out.push(Tree::MR(Box::new(a.clone()), Box::new(b.clone())));
    out.push(Tree::MRS(Box::new(a.clone()), Box::new(b.clone())));
    if gcd(a.len() as u64, b.len() as u64) == 1 {
        out.push(Tree::GT(Box::new(a.clone()), Box::new(b.clone())));
        out.push(Tree::GTS(Box::new(a.clone()), Box::new(b.clone())));
    }
}

/// The finite tree set of a tier. Deterministic; simplest first.
pub fn enumerate(tier: Tier) -> (Vec<Tree>, String) {
    let maxlen1 = tier.pick(160, 1024);
    let maxlen2 = tier.pick(96, 512);
    let mut leaves: Vec<Tree> = Vec::new();
    for n in 1..=32 {
        leaves.push(Tree::Dft(n));
    }
    for n in BUTTERFLIES {
        leaves.push(Tree::Bf(n));
    }
    for n in [1usize, 2, 4, 8, 16, 32] {
        leaves.push(Tree::R4(n));
    }
    for n in [1usize, 3, 9, 27] {
        leaves.push(Tree::R3(n));
    }
    let mut trees: Vec<Tree> = leaves.clone();
    // depth 1: every ordered leaf pair under the 4 binary constructors, every leaf under the unary ones
    let mut d1: Vec<Tree> = Vec::new();
    for a in &leaves {
        unary_over(a, maxlen1, &mut d1);
        for b in &leaves {
            binary_over(a, b, maxlen1, &mut d1);
        }
    }
    trees.extend(d1);
    // planner-produced transforms as inner transforms
    let planned_lens = [8usize, 12, 36, 37, 59, 64, 100, 128];
    let small: Vec<Tree> = vec![Tree::Bf(1), Tree::Bf(2), Tree::Bf(3), Tree::Dft(5), Tree::Bf(7), Tree::Bf(8)];
    let mut pl: Vec<Tree> = Vec::new();
    for pk in PK::DISTINCT {
        for n in planned_lens {
            let p = Tree::Planned(pk, n);
            unary_over(&p, 2048, &mut pl);
            for s in &small {
                binary_over(&p, s, 2048, &mut pl);
                binary_over(s, &p, 2048, &mut pl);
            }
        }
    }
    trees.extend(pl);
    // RadersAlgorithm over EVERY prime up to a bound (inner transform planner-built): the primitive-root / index-map
    // arithmetic is number-theoretic and misbehaves for sparse sets of primes
    let rader_hi = tier.pick(8192, 40000);
    for p in crate::lens::primes_between(160, rader_hi) {
        trees.push(Tree::Rader(Box::new(Tree::Planned(PK::Scalar, p - 1))));
    }
    // depth 2: children drawn from a reduced leaf set and all depth-1 trees over it
    let l2: Vec<Tree> = vec![Tree::Bf(1), Tree::Bf(2), Tree::Bf(3), Tree::Bf(4), Tree::Dft(5), Tree::Dft(6), Tree::Bf(7), Tree::Bf(8), Tree::Dft(9), Tree::R4(16)];
    let mut sub: Vec<Tree> = Vec::new();
    for a in &l2 {
        unary_over(a, 48, &mut sub);
        for b in &l2 {
            binary_over(a, b, 48, &mut sub);
        }
    }
    let mut d2: Vec<Tree> = Vec::new();
    for s in &sub {
        unary_over(s, maxlen2, &mut d2);
        for l in &l2 {
            binary_over(s, l, maxlen2, &mut d2);
            binary_over(l, s, maxlen2, &mut d2);
        }
    }
    if tier == Tier::Thorough {
        for s in &sub {
            for s2 in &sub {
                binary_over(s, s2, maxlen2, &mut d2);
            }
        }
    }
    trees.extend(d2);
    // large instances of every constructor: composite length above 2^16 (index tables, 16-bit arithmetic); light check
    let b = |t: Tree| Box::new(t);
    let mut big: Vec<Tree> = vec![
        Tree::MR(b(Tree::R4(1024)), b(Tree::R3(81))),
        Tree::MRS(b(Tree::R4(1024)), b(Tree::R3(81))),
        Tree::GT(b(Tree::R4(1024)), b(Tree::R3(81))),
        Tree::GTS(b(Tree::R4(1024)), b(Tree::R3(81))),
        Tree::GT(b(Tree::R3(243)), b(Tree::R4(512))),
        Tree::GTS(b(Tree::R3(243)), b(Tree::R4(512))),
        Tree::MRS(b(Tree::R3(243)), b(Tree::R4(512))),
        Tree::GTS(b(Tree::R4(256)), b(Tree::Planned(PK::Scalar, 257))),
        Tree::Rader(b(Tree::R4(65536))),
        Tree::Rader(b(Tree::Planned(PK::Scalar, 147456))),
        Tree::Blue(70001, b(Tree::R4(262144))),
        Tree::Blue(65537, b(Tree::Planned(PK::Scalar, 131073))),
        Tree::R4B(8, b(Tree::Bf(2))),
        Tree::R4B(7, b(Tree::Bf(5))),
        Tree::R3B(10, b(Tree::Bf(2))),
        Tree::R3B(9, b(Tree::Bf(4))),
        Tree::R4(131072),
        Tree::R3(177147),
    ];
    if tier == Tier::Thorough {
        big.extend(vec![
            Tree::MR(b(Tree::R3(729)), b(Tree::R4(256))),
            Tree::GTS(b(Tree::Planned(PK::Scalar, 625)), b(Tree::R4(128))),
            Tree::GT(b(Tree::Planned(PK::Avx, 1025)), b(Tree::R4(128))),
            Tree::MR(b(Tree::Planned(PK::Sse, 300)), b(Tree::Planned(PK::Scalar, 301))),
            Tree::Rader(b(Tree::Planned(PK::Avx, 786432))),
            Tree::Blue(200003, b(Tree::R4(524288))),
            Tree::R4B(6, b(Tree::Planned(PK::Scalar, 37))),
            Tree::R3B(7, b(Tree::Planned(PK::Scalar, 59))),
        ]);
    }
    let n_big = big.len();
    trees.extend(big);
    // adversarial leaves (C03 only): every constructor over a safe `Fft` whose answers change after construction
    let mut adv: Vec<Tree> = Vec::new();
    for (x, y) in [(4usize, 8usize), (8, 4), (3, 5), (5, 3), (4, 32), (16, 2), (6, 7)] {
        let sft = Tree::Shifty(x, y);
        let mut sub: Vec<Tree> = Vec::new();
        unary_over(&sft, 4096, &mut sub);
        for partner in [Tree::Bf(3), Tree::Bf(4), Tree::Bf(5), Tree::Bf(7), Tree::R4(16)] {
            binary_over(&sft, &partner, 4096, &mut sub);
            binary_over(&partner, &sft, 4096, &mut sub);
        }
        // one more level: a well-behaved constructor around the composite that contains the shifty leaf
        let mut sub2: Vec<Tree> = Vec::new();
        for t1 in sub.iter().take(24) {
            binary_over(t1, &Tree::Bf(2), 8192, &mut sub2);
            binary_over(&Tree::Bf(7), t1, 8192, &mut sub2);
        }
        adv.extend(sub);
        adv.extend(sub2);
    }
    let n_adv = adv.len();
    trees.extend(adv);
    let desc = format!(
        "leaves L = Dft(1..=32), Butterfly{{21 sizes}}, Radix4::new(2^0..2^5), Radix3::new(3^0..3^3); depth 0: L; depth 1: every ordered pair of L under MixedRadix / MixedRadixSmall / GoodThomasAlgorithm / GoodThomasAlgorithmSmall with product <= {m1}, every leaf under RadersAlgorithm, BluesteinsAlgorithm(len in {{1,2,3,largest prime,max,max-1}}), Radix4/Radix3::new_with_base(k<=2); planner-built scalar/SSE/AVX transforms of lengths {pl:?} as inner transforms of every unary constructor and paired with 6 small leaves; RadersAlgorithm(planner-built inner of length p-1) for EVERY prime 160 < p <= {rh} (light check: f64, impulses and exact sparse spikes); depth 2: every depth-1 tree (length <= 48) over the reduced leaf set {{B1,B2,B3,B4,Dft5,Dft6,B7,B8,Dft9,Radix4(16)}} under every unary constructor and paired (both orders) with every reduced leaf{t}, composite length <= {m2}. Trees outside a constructor's documented preconditions are not built. LARGE instances ({nb}): every binary constructor over Radix4(1024)xRadix3(81) and Radix3(243)xRadix4(512), GoodThomasAlgorithmSmall(Radix4(256), planned 257), RadersAlgorithm over Radix4(65536) and a planned 147456, BluesteinsAlgorithm(70001; Radix4(2^18)) and (65537; planned 131073), Radix4/Radix3::new_with_base with 7..10 layers, Radix4::new(2^17), Radix3::new(3^11) -- all above 2^16 points, light check (f64, 4 impulses + exact sparse spikes, 4 entry points, exact NaN-filled scratch, guard pages). ADVERSARIAL leaves ({na} trees, C03 only): every constructor over a safe user-written Fft whose len() and scratch lengths change after the composite was constructed (7 before/after pairs), alone, paired with 5 well-behaved leaves in both orders, and one level further in; all four entry points with the data/output/scratch lengths the composite advertises before and after the change, guard pages at both placements: panics are fine, a fatal signal or an unsafe-precondition abort is a violation.",
        m1 = maxlen1,
        pl = planned_lens,
        t = if tier == Tier::Thorough { " and with every other depth-1 tree" } else { "" },
        m2 = maxlen2,
        rh = rader_hi,
        nb = n_big,
        na = n_adv
    );
    (trees, desc)
}

// ---------------------------------------------------------------------------------------- worker
struct W {
    a_in: Arena,
    a_out: Arena,
    a_scr: Arena,
    evaluations: u64,
    nontrivial: u64,
    states: u64,
    skipped_precond: u64,
    worst: f64,
}

fn viol(tree: &Tree, d: FftDirection, extra: &str, what: &str) {
    println!("VIOL\tC12|tree={}|dir={}{}\t{}", tree.describe(), dir_name(d), extra, what.replace(['\n', '\t'], " "));
}

fn exact_part(w: &mut W, tree: &Tree, d: FftDirection, seed: u64) {
    let n = tree.len();
    let builder = || -> Result<Arc<dyn Fft<Fp>>, String> { build::<Fp>(tree, d) };
    let built = match exact::build_in_field_generic(&builder, &[n as u64], 0) {
        Err(msg) => {
            viol(tree, d, "|layer=exact", &format!("constructor panicked inside its documented preconditions: {}", msg));
            return;
        }
        Ok(Err(_)) => return,
        Ok(Ok(b)) => b,
    };
    let fft = match built.obj {
        Ok(f) => f,
        Err(_) => {
            w.skipped_precond += 1;
            return;
        }
    };
    if built.build_flags & (fp::FLAG_UNKNOWN_CONST | fp::FLAG_BINDING | fp::FLAG_BAD_LEN) != 0 {
        println!("INFO\texact layer undecided for {}: {}", tree.describe(), fp::flag_names(built.build_flags));
        return;
    }
    if fft.len() != n || fft.fft_direction() != d {
        viol(tree, d, "|layer=exact", &format!("composite reports (len {}, {}) instead of ({}, {})", fft.len(), dir_name(fft.fft_direction()), n, dir_name(d)));
        return;
    }
    w.states += 1;
    let mut st = ExactStats::default();
    let pos = inputs::impulse_positions(n, n <= 40);
    exact::check_transform(fft.as_ref(), &built.field, d, &Entry::ALL, &pos, 1, seed, &tree.describe(), &mut st);
    // C07 in the field: k = 2, 3 distinct dense chunks
    let t = Table::new(&built.field, n);
    let mut rng = Rng::new(seed ^ 0xC07 ^ n as u64);
    for k in [2usize, 3] {
        let xs: Vec<Vec<(u64, u64)>> = (0..k).map(|_| (0..n).map(|_| (rng.next() % built.field.p, rng.next() % built.field.p)).collect()).collect();
        let ex: Vec<Vec<(u64, u64)>> = xs.iter().map(|x| t.dft(x, d)).collect();
        for e in Entry::ALL {
            exact::run_and_compare(fft.as_ref(), e, &xs, &ex, if k == 3 { 5 } else { 0 }, &format!("{} k={}", tree.describe(), k), &mut st);
        }
    }
    w.evaluations += st.calls;
    if n >= 2 {
        w.nontrivial += st.calls;
    }
    let und = st.flags & (fp::FLAG_UNKNOWN_CONST | fp::FLAG_BINDING | fp::FLAG_BAD_LEN);
    if und != 0 {
        println!("INFO\texact layer undecided for {}: {}", tree.describe(), fp::flag_names(und));
        return;
    }
    if let Some(p) = st.panics.first() {
        viol(tree, d, "|layer=exact", &format!("well-shaped call panicked (C09): {}", p));
    }
    if let Some(m) = st.mismatches.first() {
        viol(tree, d, "|layer=exact", &format!("{} (C01/C07/C08 in F_p, p={})", m, built.field.p));
    }
    if st.flags & (fp::FLAG_NONLINEAR | fp::FLAG_NONRING | fp::FLAG_DIV_DATA) != 0 {
        viol(tree, d, "|layer=exact", &format!("executed circuit is not linear/data-oblivious: {}", fp::flag_names(st.flags)));
    }
}

fn float_part<T: Real>(w: &mut W, tree: &Tree, tree_idx: usize, d: FftDirection, rf: &Ref, seed: u64, light: bool) {
    let n = tree.len();
    let tycode = if T::NAME == "f32" { 32 } else { 64 };
    let mut f = [-1i64; NFIELDS];
    f[0] = 12;
    f[1] = tree_idx as i64;
    f[2] = tycode;
    f[3] = if d == FftDirection::Forward { 0 } else { 1 };
    f[4] = n as i64;
    mem::set_current(&f);
    let fft = match std::panic::catch_unwind(std::panic::AssertUnwindSafe(|| build::<T>(tree, d))) {
        Ok(Ok(x)) => x,
        Ok(Err(_)) => return,
        Err(e) => {
            viol(tree, d, &format!("|T={}", T::NAME), &format!("constructor panicked inside its documented preconditions: {}", panic_text(&e)));
            return;
        }
    };
    w.states += 1;
    let b = bound::<T>(n) * 8.0;
    // references: reduced impulses + two dense vectors
    let mut cases: Vec<(String, Vec<C<T>>, Vec<(crate::dd::DD, crate::dd::DD)>)> = Vec::new();
    let ipos = if light { vec![0, 1 % n, n / 2, n - 1] } else { inputs::impulse_positions(n, n <= 16) };
    for j in ipos {
        cases.push((format!("impulse:re:{}", j), from_c64::<T>(&inputs::impulse(n, j, false)), rf.impulse_col(j, false, d)));
    }
    if light {
        // exact sparse spectrum instead of an O(n^2) reference
        let sp = vec![(0usize, C::new(1.0f64, 0.0)), (n / 3, C::new(0.0, -2.0)), (n - 1, C::new(0.5, 0.5)), (n / 2, C::new(-1.5, 0.25)), (1 % n, C::new(0.25, 1.0))];
        let mut x64 = vec![C::new(0.0f64, 0.0); n];
        let mut spd: Vec<(usize, C<f64>)> = Vec::new();
        for (j, a) in sp {
            if x64[j] == C::new(0.0, 0.0) {
                x64[j] = a;
                spd.push((j, a));
            }
        }
        cases.push(("spikes".into(), from_c64::<T>(&x64), rf.sparse_dft(&spd, d)));
    } else {
        for salt in [1u64, 2] {
            let x = dense_vec::<T>(n, seed ^ salt);
            let x64 = to_c64(&x);
            let r = if T::NAME == "f32" { rf.dft_f64(&x64, d) } else { rf.dft_dd(&x64, d) };
            cases.push((format!("dense:{}", salt), x, r));
        }
    }
    for e in Entry::ALL {
        let ei = Entry::ALL.iter().position(|x| *x == e).unwrap() as i64;
        let adv = e.scratch_len(fft.as_ref());
        // (1) correctness + exact advertised scratch, in guard-paged buffers, both placements, k = 1 and 2
        for (ci, (name, x, r)) in cases.iter().enumerate() {
            for (pi, place) in Place::BOTH.iter().enumerate() {
                let k = 1 + (ci + pi) % 2;
                let dl = k * n;
                f[5] = ei;
                f[6] = dl as i64;
                f[7] = if e.has_output() { dl as i64 } else { 0 };
                f[8] = adv as i64;
                f[9] = pi as i64;
                mem::set_current(&f);
                let data: &mut [C<T>] = w.a_in.slice(dl, *place);
                for c in 0..k {
                    data[c * n..(c + 1) * n].copy_from_slice(x);
                }
                let out: &mut [C<T>] = w.a_out.slice(if e.has_output() { dl } else { 0 }, *place);
                let scr: &mut [C<T>] = w.a_scr.slice(adv, *place);
                let nan = C::new(T::from64(f64::NAN), T::from64(f64::NAN));
                out.iter_mut().for_each(|v| *v = nan);
                scr.iter_mut().for_each(|v| *v = nan);
                let res = std::panic::catch_unwind(std::panic::AssertUnwindSafe(|| match e {
                    Entry::Process => fft.process(data),
                    Entry::InPlace => fft.process_with_scratch(data, scr),
                    Entry::OutOfPlace => fft.process_outofplace_with_scratch(data, out, scr),
                    Entry::Immut => fft.process_immutable_with_scratch(data, out, scr),
                }));
                w.evaluations += 1;
                if n >= 2 {
                    w.nontrivial += 1;
                }
                let extra = format!("|T={}|entry={}|in={}|k={}|place={}", T::NAME, e.name(), name, k, place.name());
                if let Err(pe) = res {
                    viol(tree, d, &extra, &format!("well-shaped call with exactly the advertised scratch panicked (C08/C09): {}", panic_text(&pe)));
                    check_index_panic(tree, d, &extra);
                    continue;
                }
                let result: &[C<T>] = if e.has_output() { out } else { data };
                for c in 0..k {
                    let (err, rn) = l2_error(&result[c * n..(c + 1) * n], r);
                    let ratio = if rn > 0.0 { err / (b * rn) } else if err == 0.0 { 0.0 } else { f64::INFINITY };
                    if ratio.is_finite() {
                        w.worst = w.worst.max(ratio);
                    }
                    if !(ratio <= 1.0) {
                        viol(tree, d, &extra, &format!("chunk {} of {}: relative L2 error {:e} against the reference DFT exceeds {:e} (C01; NaN-filled scratch/output, so also C08)", c, k, err / rn.max(1e-300), b));
                        break;
                    }
                }
            }
        }
        if light {
            continue;
        }
        // (2) the shape contract (C09) with guard pages (C03): reduced product
        let mut dls = vec![n, n + 1, 2 * n, 2 * n + 1];
        if n > 1 {
            dls.push(n - 1);
        }
        for dl in dls {
            let ols: Vec<usize> = if e.has_output() { vec![dl, dl + 1, dl.saturating_sub(1)] } else { vec![0] };
            for ol in ols {
                let mut sls = if e == Entry::Process { vec![0] } else { vec![adv, adv + 1] };
                if e != Entry::Process && adv > 0 {
                    sls.push(adv - 1);
                    sls.push(0);
                }
                sls.sort();
                sls.dedup();
                for sl in sls {
                    let place = if (dl + ol + sl) % 2 == 0 { Place::EndFlush } else { Place::StartFlush };
                    f[5] = ei;
                    f[6] = dl as i64;
                    f[7] = ol as i64;
                    f[8] = sl as i64;
                    f[9] = if place == Place::EndFlush { 0 } else { 1 };
                    mem::set_current(&f);
                    let data: &mut [C<T>] = w.a_in.slice(dl, place);
                    let out: &mut [C<T>] = w.a_out.slice(ol, place);
                    let scr: &mut [C<T>] = w.a_scr.slice(sl, place);
                    let one = C::new(T::from64(0.5), T::from64(-0.25));
                    data.iter_mut().for_each(|v| *v = one);
                    out.iter_mut().for_each(|v| *v = one);
                    scr.iter_mut().for_each(|v| *v = one);
                    LAST_PANIC.with(|p| *p.borrow_mut() = None);
                    let res = std::panic::catch_unwind(std::panic::AssertUnwindSafe(|| match e {
                        Entry::Process => fft.process(data),
                        Entry::InPlace => fft.process_with_scratch(data, scr),
                        Entry::OutOfPlace => fft.process_outofplace_with_scratch(data, out, scr),
                        Entry::Immut => fft.process_immutable_with_scratch(data, out, scr),
                    }));
                    w.evaluations += 1;
                    let extra = format!("|T={}|entry={}|data={}|out={}|scratch={}|place={}", T::NAME, e.name(), dl, ol, sl, place.name());
                    let expect = shape_model(n, e, dl, if e.has_output() { ol } else { dl }, sl, adv);
                    match (expect, res.is_ok()) {
                        (Expect::MustSucceed, false) => viol(tree, d, &extra, "well-shaped call panicked (C09)"),
                        (Expect::MustPanic, true) => viol(tree, d, &extra, &format!("ill-shaped call returned normally (C09): n={}, data={}, output={}, scratch={} of advertised {}", n, dl, ol, sl, adv)),
                        _ => {}
                    }
                    if res.is_err() {
                        check_index_panic(tree, d, &extra);
                    }
                }
            }
        }
    }
}

/// C03 for composites over an adversarial (safe, but promise-breaking) inner transform: no oracle but the memory monitor
fn adversarial_part<T: Real>(w: &mut W, tree: &Tree, tree_idx: usize, d: FftDirection) {
    use std::sync::atomic::Ordering::SeqCst;
    let tycode = if T::NAME == "f32" { 32 } else { 64 };
    let mut f = [-1i64; NFIELDS];
    f[0] = 12;
    f[1] = tree_idx as i64;
    f[2] = tycode;
    f[3] = if d == FftDirection::Forward { 0 } else { 1 };
    f[4] = tree.len() as i64;
    mem::set_current(&f);
    SHIFTED.store(false, SeqCst);
    let fft = match std::panic::catch_unwind(std::panic::AssertUnwindSafe(|| build::<T>(tree, d))) {
        Ok(Ok(x)) => x,
        _ => return, // outside preconditions, or a constructor assertion: nothing to run
    };
    let n0 = fft.len();
    let adv0: Vec<usize> = Entry::ALL.iter().map(|e| e.scratch_len(fft.as_ref())).collect();
    SHIFTED.store(true, SeqCst);
    let n1 = std::panic::catch_unwind(std::panic::AssertUnwindSafe(|| fft.len())).unwrap_or(n0);
    w.states += 1;
    for (ei, e) in Entry::ALL.iter().enumerate() {
        let adv1 = std::panic::catch_unwind(std::panic::AssertUnwindSafe(|| e.scratch_len(fft.as_ref()))).unwrap_or(adv0[ei]);
        let mut dls = vec![n0, 2 * n0, n1, 2 * n1, 3 * n0];
        dls.sort();
        dls.dedup();
        let mut sls = vec![adv0[ei], adv1, adv0[ei].max(adv1) + n0.max(n1), 4 * n0.max(n1) + 7];
        sls.sort();
        sls.dedup();
        for &dl in &dls {
            if dl == 0 || dl > 3 * 8192 {
                continue;
            }
            for &sl in &sls {
                for (pi, place) in Place::BOTH.iter().enumerate() {
                    f[5] = ei as i64;
                    f[6] = dl as i64;
                    f[7] = if e.has_output() { dl as i64 } else { 0 };
                    f[8] = sl as i64;
                    f[9] = pi as i64;
                    mem::set_current(&f);
                    let data: &mut [C<T>] = w.a_in.slice(dl, *place);
                    let out: &mut [C<T>] = w.a_out.slice(if e.has_output() { dl } else { 0 }, *place);
                    let scr: &mut [C<T>] = w.a_scr.slice(sl, *place);
                    let v = C::new(T::from64(0.5), T::from64(-0.25));
                    data.iter_mut().for_each(|x| *x = v);
                    out.iter_mut().for_each(|x| *x = v);
                    scr.iter_mut().for_each(|x| *x = v);
                    LAST_PANIC.with(|p| *p.borrow_mut() = None);
                    let res = std::panic::catch_unwind(std::panic::AssertUnwindSafe(|| match e {
                        Entry::Process => fft.process(data),
                        Entry::InPlace => fft.process_with_scratch(data, scr),
                        Entry::OutOfPlace => fft.process_outofplace_with_scratch(data, out, scr),
                        Entry::Immut => fft.process_immutable_with_scratch(data, out, scr),
                    }));
                    w.evaluations += 1;
                    w.nontrivial += 1;
                    if res.is_err() {
                        let extra = format!("|T={}|entry={}|data={}|out={}|scratch={}|place={}", T::NAME, e.name(), dl, f[7], sl, place.name());
                        check_index_panic(tree, d, &extra);
                    }
                }
            }
        }
    }
    SHIFTED.store(false, SeqCst);
}

fn check_index_panic(tree: &Tree, d: FftDirection, extra: &str) {
    if let Some((file, line, msg)) = LAST_PANIC.with(|p| p.borrow_mut().take()) {
        let idx_file = ["array_utils.rs", "avx_vector.rs", "sse_vector.rs", "sse_utils.rs", "avx32_utils.rs", "avx64_utils.rs", "sse_common.rs"].iter().any(|s| file.ends_with(s));
        if (idx_file && msg.contains("assertion failed")) || msg.contains("unsafe precondition") {
            viol(tree, d, extra, &format!("index assertion failed inside unsafe code at {}:{} (C03): {}", file, line, msg));
        }
    }
}

/// `rfv c12worker C12 <tier> <stripe> <nstripes> <skip_upto> [single fields]`
pub fn worker_main(args: &[String]) -> i32 {
    let tier = if args.get(1).map(|s| s.as_str()) == Some("thorough") { Tier::Thorough } else { Tier::Quick };
    let stripe: usize = args.get(2).and_then(|s| s.parse().ok()).unwrap_or(0);
    let nstripes: usize = args.get(3).and_then(|s| s.parse().ok()).unwrap_or(1);
    let skip_upto: i64 = args.get(4).and_then(|s| s.parse().ok()).unwrap_or(-1);
    let single: Option<i64> = if args.len() >= 5 + NFIELDS { args[5 + 1].parse().ok() } else { None };
    mem::install_fatal_handlers();
    install_worker_panic_hook();
    let seed: u64 = std::env::var("VERIF_SEED").ok().and_then(|s| s.parse().ok()).unwrap_or(20260923);
    let (trees, _) = enumerate(tier);
    let only_adv = std::env::var("VERIF_C12_ONLY_ADV").is_ok();
    let maxn = trees.iter().map(|t| t.len()).max().unwrap_or(1).max(3 * 8192);
    let bytes = (2 * maxn + 2) * 16;
    let mut w = W { a_in: Arena::new(bytes), a_out: Arena::new(bytes), a_scr: Arena::new(bytes * 8 + (1 << 16)), evaluations: 0, nontrivial: 0, states: 0, skipped_precond: 0, worst: 0.0 };
    let mut last_ref: Option<Ref> = None;
    for (idx, tree) in trees.iter().enumerate() {
        match single {
            Some(s) => {
                if s != idx as i64 {
                    continue;
                }
            }
            None => {
                if idx % nstripes != stripe || (idx as i64) <= skip_upto {
                    continue;
                }
            }
        }
        if only_adv && !tree.has_shifty() {
            continue;
        }
        let n = tree.len();
        let dirs: Vec<FftDirection> = if tier == Tier::Thorough || single.is_some() { DIRS.to_vec() } else { vec![DIRS[idx % 2]] };
        for d in dirs {
            let mut f = [-1i64; NFIELDS];
            f[0] = 12;
            f[1] = idx as i64;
            f[2] = 0;
            f[3] = if d == FftDirection::Forward { 0 } else { 1 };
            f[4] = n as i64;
            f[10] = idx as i64;
            mem::set_current(&f);
            if tree.has_shifty() {
                adversarial_part::<f64>(&mut w, tree, idx, d);
                adversarial_part::<f32>(&mut w, tree, idx, d);
                continue;
            }
            // planner leaves only exist for f32/f64 SIMD planners; in the field they fall back to the portable planner
            let light = n > 2100;
            if !light {
                exact_part(&mut w, tree, d, seed);
            }
            if last_ref.as_ref().map(|r| r.n) != Some(n) {
                last_ref = Some(Ref::new(n));
            }
            let rf = last_ref.as_ref().unwrap();
            float_part::<f64>(&mut w, tree, idx, d, rf, seed, light);
            if !light && (tree.has_planned() || idx % 3 == 0 || tier == Tier::Thorough) {
                float_part::<f32>(&mut w, tree, idx, d, rf, seed, false);
            }
        }
    }
    println!("INFO\tworst C01 ratio in stripe {}: {:.4}; trees outside preconditions skipped: {}", stripe, w.worst, w.skipped_precond);
    println!("STAT evaluations={} nontrivial={} states={} counter=0", w.evaluations, w.nontrivial, w.states);
    0
}

fn key_from_fields_with(trees: &[Tree]) -> impl Fn(&[i64]) -> String + '_ {
    move |f: &[i64]| {
        let t = trees.get(f[1].max(0) as usize).map(|t| t.describe()).unwrap_or_else(|| "?".into());
        let e = if f[5] < 0 { "construct".to_string() } else { Entry::ALL.get(f[5] as usize).map(|e| e.name().to_string()).unwrap_or_default() };
        format!("C12|tree={}|dir={}|T={}|entry={}|data={}|out={}|scratch={}|place={}|idx={}", t, if f[3] == 0 { "fwd" } else { "inv" }, if f[2] == 0 { "Fp".to_string() } else { format!("f{}", f[2]) }, e, f[6], f[7], f[8], if f[9] == 0 { "end" } else { "start" }, f[1])
    }
}

/// The adversarial-leaf trees only, for C03 (which owns the memory-safety clause): same worker, keys rewritten to C03.
pub fn run_adversarial_for_c03(ctx: &Ctx, rep: &mut Report) {
    let (trees, _) = enumerate(ctx.tier);
    let keyfn = key_from_fields_with(&trees);
    std::env::set_var("VERIF_C12_ONLY_ADV", "1");
    let nstripes = threads();
    let outs = Mutex::new(Vec::new());
    std::thread::scope(|s| {
        for st in 0..nstripes {
            let outs = &outs;
            let keyfn = &keyfn;
            let tier = ctx.tier;
            s.spawn(move || {
                let o = run_stripe_generic("c12worker", "C12", tier, st, nstripes, None, keyfn);
                outs.lock().unwrap().push(o);
            });
        }
    });
    std::env::remove_var("VERIF_C12_ONLY_ADV");
    let mut cases = 0u64;
    for o in outs.into_inner().unwrap() {
        cases += o.evaluations;
        rep.states += o.states;
        for (k, w) in o.viols {
            rep.violate(k.replacen("C12|", "C03|adversarial-inner|", 1), w, Json::Null);
        }
        for (k, sig) in o.crashes {
            rep.violate(k.replacen("C12|", "C03|adversarial-inner|", 1), format!("fatal signal {} while running a composite whose inner transform is a safe user-written Fft that changes its len()/scratch answers after construction: an access outside the caller's buffers, or an unsafe-precondition abort", sig), Json::obj().with("signal", sig));
        }
        rep.machinery_errors.extend(o.machinery);
    }
    rep.evaluations += cases;
    rep.transitions += cases;
    rep.distinct_nontrivial += cases;
    rep.set("adversarial_inner_cases", cases);
    rep.set("adversarial_inner_trees", trees.iter().filter(|t| t.has_shifty()).count());
}

/// replay of one tree (by its description) in a worker process, twice; used by C12 and by C03's adversarial part
pub fn replay_tree(ctx: &Ctx, key: &str, rep: &mut Report) -> bool {
    let (trees, _) = enumerate(ctx.tier);
    let keyfn = key_from_fields_with(&trees);
    let m = parse_key(key);
    let want = m.get("tree").cloned().unwrap_or_default();
    let idx = match trees.iter().position(|t| t.describe() == want) {
        Some(i) => i,
        None => {
            eprintln!("tree {} is not in this tier's set", want);
            return false;
        }
    };
    let mut f = [-1i64; NFIELDS];
    f[1] = idx as i64;
    let mut verdicts = Vec::new();
    for round in 0..2 {
        let so = run_stripe_generic("c12worker", "C12", ctx.tier, 0, 1, Some(f), &keyfn);
        let what = so.crashes.first().map(|(k, s)| format!("fatal signal {} in {}", s, k)).or_else(|| so.viols.first().map(|(_, w)| w.clone()));
        println!("replay round {}: {}", round, what.clone().map(|w| format!("reproduces: {}", w)).unwrap_or("does not reproduce".into()));
        verdicts.push(what);
    }
    if let (Some(w), true) = (verdicts[0].clone(), verdicts[0] == verdicts[1]) {
        rep.violate(key.to_string(), w, Json::Null);
    }
    true
}

pub fn run(ctx: &Ctx) -> i32 {
    let (trees, desc) = enumerate(ctx.tier);
    let mut rep = Report::new();
    let keyfn = key_from_fields_with(&trees);
    if let Some(r) = &ctx.replay {
        let key = r.get("key").and_then(|k| k.as_str()).unwrap_or("").to_string();
        let m = parse_key(&key);
        let want = m.get("tree").cloned().unwrap_or_default();
        let idx = trees.iter().position(|t| t.describe() == want);
        std::env::set_var("VERIF_EVIDENCE_PART", "replay");
        let idx = match idx {
            Some(i) => i,
            None => {
                eprintln!("tree {} is not in this tier's set", want);
                return 2;
            }
        };
        let mut f = [-1i64; NFIELDS];
        f[1] = idx as i64;
        let mut verdicts = Vec::new();
        for round in 0..2 {
            let so = run_stripe_generic("c12worker", "C12", ctx.tier, 0, 1, Some(f), &keyfn);
            let what = so.crashes.first().map(|(k, s)| format!("fatal signal {} in {}", s, k)).or_else(|| so.viols.first().map(|(_, w)| w.clone()));
            println!("replay round {}: {}", round, what.clone().map(|w| format!("reproduces: {}", w)).unwrap_or("does not reproduce".into()));
            verdicts.push(what);
        }
        if let (Some(w), true) = (verdicts[0].clone(), verdicts[0] == verdicts[1]) {
            rep.violate(key.clone(), w, Json::Null);
        }
        rep.evaluations = 2;
        rep.distinct_nontrivial = 2;
        rep.rule = "replay of one tree in a worker process, run twice".into();
        rep.sample(Json::Str(key));
        return finalize(ctx, rep);
    }
    let nstripes = threads();
    let outs = Mutex::new(Vec::new());
    std::thread::scope(|s| {
        for st in 0..nstripes {
            let outs = &outs;
            let keyfn = &keyfn;
            let tier = ctx.tier;
            s.spawn(move || {
                let o = run_stripe_generic("c12worker", "C12", tier, st, nstripes, None, keyfn);
                outs.lock().unwrap().push(o);
            });
        }
    });
    let mut infos = Vec::new();
    for o in outs.into_inner().unwrap() {
        rep.evaluations += o.evaluations;
        rep.transitions += o.evaluations;
        rep.distinct_nontrivial += o.nontrivial;
        rep.states += o.states;
        for (k, w) in o.viols {
            rep.violate(k, w, Json::Null);
        }
        for (k, sig) in o.crashes {
            rep.violate(k, format!("fatal signal {} while building or running this composite (C03): access outside the caller's buffers, or an unsafe-precondition abort", sig), Json::obj().with("signal", sig));
        }
        rep.machinery_errors.extend(o.machinery);
        infos.extend(o.info);
    }
    let by_depth: Vec<usize> = (0..=2).map(|d| trees.iter().filter(|t| t.depth() == d).count()).collect();
    rep.set("trees_enumerated", trees.len());
    rep.set("trees_by_depth", Json::Arr(by_depth.iter().map(|x| Json::Int(*x as i64)).collect()));
    rep.set("max_composite_len", trees.iter().map(|t| t.len()).max().unwrap_or(0));
    rep.set("worker_info", Json::Arr(infos.into_iter().take(40).map(Json::Str).collect()));
    rep.sample(Json::Str(trees[trees.len() / 3].describe()));
    rep.sample(Json::Str(trees[trees.len() - 1].describe()));
    rep.sample(Json::Str(trees[trees.len() / 2].describe()));
    rep.rule = format!(
        "build flavour {fl}: {d}. Per tree (one direction in quick alternating by index, both in thorough): (a) built over a prime field: zero vector, impulse basis (complete for n <= 40, 22 positions above), a dense vector, 4 entry points, k = 1,2,3 chunks, poison-tagged scratch/output: equality with the DFT in F_p (C01, C07, C08), no data*data; (b) built for f64 (and f32 for a third of the trees and every tree with a planner-built leaf): impulses + 2 dense vectors against the double-double reference with 8*B allowance, NaN-filled exact advertised scratch, k in {{1,2}}, inside guard-paged buffers at both placements (C01, C03, C08), then the shape contract on a reduced product of data/output/scratch deviations (C09, C03). A tree is non-trivial if its length is >= 2.",
        fl = ctx.flavour,
        d = desc
    );
    rep.exhaustive = true;
    rep.assumptions = vec!["the precondition model encodes each constructor's documented Panics section and its assert!-ed requirements (equal directions by construction, coprimality, primality, inner >= 2*len-1, power of two/three, the *Small scratch conditions)".into(), "random depth-3/4 trees from the property text are not run (sampling is outside this family)".into()];
    finalize(ctx, rep)
}
