//! C08: scratch is pure workspace: the advertised size suffices, a longer one gives the identical result,
//! and the output is bit-for-bit independent of the initial contents of scratch and output buffers.
use crate::core::*;
use crate::exact::{self, Table};
use crate::fp::{self, Fp, TAG_POISON};
use crate::framework::{finalize, parse_key, Ctx, Report};
use crate::lens;
use crate::util::{par_map, Json, Rng};
use rustfft::{Fft, FftDirection, FftPlanner};
use std::sync::Arc;

fn key(pk: PK, ty: &str, d: FftDirection, n: usize, e: Entry, k: usize, variant: &str) -> String {
    format!("C08|pk={}|T={}|dir={}|n={}|entry={}|k={}|variant={}", pk.name(), ty, dir_name(d), n, e.name(), k, variant)
}

pub fn contents<T: Real>() -> Vec<(&'static str, C<T>)> {
    vec![
        ("zero", C::new(T::from64(0.0), T::from64(0.0))),
        ("nan", C::new(T::from64(f64::NAN), T::from64(f64::NAN))),
        ("+inf", C::new(T::from64(f64::INFINITY), T::from64(f64::INFINITY))),
        ("-inf", C::new(T::from64(f64::NEG_INFINITY), T::from64(f64::NEG_INFINITY))),
        ("huge", C::new(T::from64(T::HUGE), T::from64(-T::HUGE))),
        ("pattern", C::new(T::from_bits64(0x5555_AAAA_3C3C_C3C3), T::from_bits64(0xDEAD_BEEF_7FC0_0001))),
    ]
}

pub fn one_len<T: Real>(n: usize, planners: &[PK], rep: &mut Report, only: Option<(PK, FftDirection, Entry, usize)>) {
    if n == 0 {
        return;
    }
    let mut panics: Vec<(PK, FftDirection, String)> = Vec::new();
    let ffts = instances::<T>(n, planners, |pk, d, m| panics.push((pk, d, m)));
    for (pk, d, m) in panics {
        rep.violate(key(pk, T::NAME, d, n, Entry::InPlace, 0, "plan"), format!("planning panicked: {}", m), Json::Null);
    }
    // beyond the pool range (lengths above 2^16) the product is thinned: k = 1, two scratch lengths, three contents
    let light = n > 20000;
    let cont: Vec<(&'static str, C<T>)> = if light { contents::<T>().into_iter().filter(|c| matches!(c.0, "zero" | "nan" | "huge")).collect() } else { contents::<T>() };
    for (pk, d, f) in &ffts {
        rep.states += 1;
        for e in Entry::EXPLICIT {
            for k in if light { vec![1usize] } else { vec![1usize, 2, 3] } {
                if let Some((opk, od, oe, ok)) = only {
                    if opk != *pk || od != *d || oe != e || ok != k {
                        continue;
                    }
                }
                let mut data: Vec<C<T>> = Vec::with_capacity(n * k);
                for i in 0..k {
                    data.extend(dense_vec::<T>(n, 40 + i as u64));
                }
                let adv = e.scratch_len(f.as_ref());
                let mut reference: Option<Vec<C<T>>> = None;
                let mut lens_: Vec<usize> = if light { vec![adv, adv + 17] } else { vec![adv, adv + 1, adv + 17, 2 * adv, adv.max(2 * n) + 1] };
                lens_.sort();
                lens_.dedup();
                for &sl in &lens_ {
                    for (sname, sval) in &cont {
                        let out_variants: Vec<(&str, C<T>)> = if e.has_output() { cont.clone() } else { vec![cont[0]] };
                        for (oname, oval) in &out_variants {
                            let scr = vec![*sval; sl];
                            let out_init = if e.has_output() { vec![*oval; data.len()] } else { vec![] };
                            let co = call(f.as_ref(), e, &data, &out_init, &scr);
                            rep.evaluations += 1;
                            rep.transitions += 1;
                            if n >= 2 {
                                rep.distinct_nontrivial += 1;
                            }
                            let variant = format!("scratch_len=adv+{}:scratch={}:out={}", sl - adv, sname, oname);
                            match co.out {
                                None => {
                                    rep.violate(
                                        key(*pk, T::NAME, *d, n, e, k, &variant),
                                        format!("scratch of length {} (advertised {}) was rejected: {}", sl, adv, co.panic_msg.unwrap_or_default()),
                                        Json::Null,
                                    );
                                }
                                Some(o) => {
                                    if !finite(&o) {
                                        rep.violate(key(*pk, T::NAME, *d, n, e, k, &variant), format!("output is non-finite when scratch starts as {} and output as {}: a stale value was used", sname, oname), Json::Null);
                                    } else {
                                        match &reference {
                                            None => reference = Some(o),
                                            Some(r) => {
                                                if !same_bits(r, &o) {
                                                    rep.violate(key(*pk, T::NAME, *d, n, e, k, &variant), format!("output bits depend on scratch length/content or initial output content (variant {} vs the zero/advertised variant)", variant), Json::Null);
                                                }
                                            }
                                        }
                                    }
                                }
                            }
                        }
                    }
                }
            }
        }
    }
}

/// exact layer: poison-tagged scratch and output, three scratch lengths
fn exact_len(n: usize, seed: u64, rep: &mut Report) {
    for d in DIRS {
        let builder = || -> Arc<dyn Fft<Fp>> { FftPlanner::<Fp>::new().plan_fft(n, d) };
        let k0 = format!("C08|layer=exact|pk=auto|T=Fp|dir={}|n={}", dir_name(d), n);
        let built = match exact::build_in_field(&builder, n, 0) {
            Err(m) => {
                rep.violate(k0, format!("planning panicked: {}", m), Json::Null);
                continue;
            }
            Ok(Err(_)) => continue,
            Ok(Ok(b)) => b,
        };
        if built.build_flags & (fp::FLAG_UNKNOWN_CONST | fp::FLAG_BINDING | fp::FLAG_BAD_LEN) != 0 {
            continue;
        }
        rep.states += 1;
        let t = Table::new(&built.field, n);
        let p = built.field.p;
        let mut rng = Rng::new(seed ^ (n as u64) << 5);
        for k in [1usize, 2] {
            let xs: Vec<Vec<(u64, u64)>> = (0..k).map(|_| (0..n).map(|_| (rng.next() % p, rng.next() % p)).collect()).collect();
            let wants: Vec<Vec<(u64, u64)>> = xs.iter().map(|x| t.dft(x, d)).collect();
            let mut data: Vec<C<Fp>> = Vec::new();
            for x in &xs {
                data.extend(x.iter().map(|&(a, b)| C::new(Fp::data(a), Fp::data(b))));
            }
            for e in Entry::EXPLICIT {
                let adv = e.scratch_len(built.fft.as_ref());
                for extra in [0usize, 1, 17] {
                    let out_init = if e.has_output() { exact::poison_vec(data.len(), 3) } else { vec![] };
                    let scr = exact::poison_vec(adv + extra, 4);
                    let co = call(built.fft.as_ref(), e, &data, &out_init, &scr);
                    rep.evaluations += 1;
                    rep.transitions += 1;
                    if n >= 2 {
                        rep.distinct_nontrivial += 1;
                    }
                    let kk = format!("{}|entry={}|k={}|variant=scratch_len=adv+{}:poison", k0, e.name(), k, extra);
                    match co.out {
                        None => rep.violate(kk, format!("scratch of the advertised length (+{}) rejected: {}", extra, co.panic_msg.unwrap_or_default()), Json::Null),
                        Some(o) => {
                            if o.iter().any(|c| c.re.tag == TAG_POISON || c.im.tag == TAG_POISON) {
                                rep.violate(kk, "a value that was in the scratch or output buffer before the call flowed into the result (taint)".into(), Json::Null);
                            } else {
                                for (ci, w) in wants.iter().enumerate() {
                                    if o[ci * n..(ci + 1) * n].iter().zip(w).any(|(c, w)| (c.re.v, c.im.v) != *w) {
                                        rep.violate(kk.clone(), "result is not the exact DFT in F_p".into(), Json::Null);
                                        break;
                                    }
                                }
                            }
                        }
                    }
                }
            }
        }
        fp::take_flags();
    }
}

pub fn run(ctx: &Ctx) -> i32 {
    let t = ctx.tier;
    if let Some(r) = &ctx.replay {
        let k = r.get("key").and_then(|k| k.as_str()).unwrap_or("").to_string();
        let m = parse_key(&k);
        let n: usize = m.get("n").and_then(|s| s.parse().ok()).unwrap_or(1);
        let mut rep = Report::new();
        for _ in 0..2 {
            let mut r1 = Report::new();
            if m.get("layer").map(|s| s.as_str()) == Some("exact") {
                exact_len(n, ctx.seed, &mut r1);
            } else {
                let pk = PK::parse(m.get("pk").map(|s| s.as_str()).unwrap_or("auto")).unwrap_or(PK::Auto);
                let e = Entry::parse(m.get("entry").map(|s| s.as_str()).unwrap_or("inplace")).unwrap_or(Entry::InPlace);
                let d = parse_dir(m.get("dir").map(|s| s.as_str()).unwrap_or("fwd")).unwrap_or(FftDirection::Forward);
                let kk: usize = m.get("k").and_then(|s| s.parse().ok()).unwrap_or(1);
                if m.get("T").map(|s| s.as_str()) == Some("f32") {
                    one_len::<f32>(n, &[pk], &mut r1, Some((pk, d, e, kk)));
                } else {
                    one_len::<f64>(n, &[pk], &mut r1, Some((pk, d, e, kk)));
                }
            }
            println!("replay: {}", if r1.violations.is_empty() { "does not reproduce".to_string() } else { format!("reproduces: {}", r1.violations[0].what) });
            rep = r1;
        }
        rep.evaluations = rep.evaluations.max(2);
        rep.distinct_nontrivial = rep.distinct_nontrivial.max(2);
        rep.rule = "replay of one recorded case, run twice".into();
        rep.sample(Json::Str(k));
        std::env::set_var("VERIF_EVIDENCE_PART", "replay");
        return finalize(ctx, rep);
    }
    let dense_n = t.pick(256, 1024);
    let mut l = lens::dense(dense_n);
    let pool = lens::thin(&lens::pool(dense_n, t.pick(1 << 13, 1 << 14)), t.pick(24, 150));
    l.extend(pool.iter().map(|x| x.0));
    let big: Vec<usize> = lens::beyond_u16(t == crate::framework::Tier::Thorough).iter().map(|x| x.0).filter(|&n| n < t.pick(200_000, 400_000)).collect();
    l.extend(big.iter().cloned());
    l.reverse();
    let parts = par_map(&l, |_, &n| {
        let mut r = Report::new();
        let pks: &[PK] = if n > 20000 { &PK::DISTINCT } else { &PK::ALL };
        let t0 = std::time::Instant::now();
        one_len::<f32>(n, pks, &mut r, None);
        one_len::<f64>(n, pks, &mut r, None);
        if n > 20000 && std::env::var("VERIF_TIMING").is_ok() {
            eprintln!("C08 n={} took {:.1}s", n, t0.elapsed().as_secs_f64());
        }
        r
    });
    let mut rep = Report::new();
    for p in parts.into_iter().rev() {
        rep.merge(p);
    }
    // hand-assembled composites (transforms no planner produces): the same product
    let hand: Vec<usize> = HAND_LENS.to_vec();
    let hparts = par_map(&hand, |_, &n| {
        let mut r = Report::new();
        one_len::<f32>(n, &[PK::Hand], &mut r, None);
        one_len::<f64>(n, &[PK::Hand], &mut r, None);
        r
    });
    for p in hparts {
        rep.merge(p);
    }
    rep.set("handbuilt_lengths", Json::Arr(hand.iter().map(|x| Json::Int(*x as i64)).collect()));
    let ex_n = t.pick(128, 512);
    let ex: Vec<usize> = (1..=ex_n).rev().collect();
    let seed = ctx.seed;
    let parts = par_map(&ex, |_, &n| {
        let mut r = Report::new();
        exact_len(n, seed, &mut r);
        r
    });
    for p in parts.into_iter().rev() {
        rep.merge(p);
    }
    rep.sample(Json::Str(key(PK::Avx, "f32", FftDirection::Forward, 59, Entry::Immut, 2, "scratch_len=adv+17:scratch=nan:out=-inf")));
    rep.sample(Json::Str(key(PK::Scalar, "f64", FftDirection::Inverse, dense_n, Entry::OutOfPlace, 1, "scratch_len=adv+0:scratch=pattern:out=huge")));
    rep.set("pool_lengths", Json::Arr(pool.iter().map(|x| Json::Int(x.0 as i64)).collect()));
    rep.set("lengths_beyond_2^16", Json::Arr(big.iter().map(|x| Json::Int(*x as i64)).collect()));
    rep.rule = format!(
        "[also: one hand-assembled composite per length in handbuilt_lengths -- RadersAlgorithm / BluesteinsAlgorithm / MixedRadix / GoodThomasAlgorithm / Radix4 / Radix3::new_with_base over planner-built inner transforms that contain Bluestein's algorithm -- through the same product] planners x {{f32,f64}} x {{fwd,inv}} x every n in 1..={dn} (plus {pc} pool lengths up to {ph}, plus the lengths_beyond_2^16 with a thinned product: k=1, scratch adv/adv+17, contents zero/NaN/huge) x the 3 explicit-scratch entry points x k in {{1,2,3}} x scratch length in {{adv, adv+1, adv+17, 2*adv, max(adv,2n)+1}} x initial scratch content in {{0, NaN, +Inf, -Inf, huge, bit pattern}} x initial output content in the same 6: the full product; every variant must complete, be finite and be bit-identical to the (zero, advertised) variant. exact layer: FftPlanner::<Fp>, n in 1..={en}, poison-tagged scratch (adv, +1, +17) and output: no poison in the result, result equals the DFT in F_p. Non-trivial: n >= 2.",
        dn = dense_n,
        pc = pool.len(),
        ph = t.pick(1 << 13, 1 << 14),
        en = ex_n
    );
    rep.exhaustive = true;
    rep.assumptions = vec!["float layer: a stale value that is read but multiplied away exactly (x0) would still be NaN/Inf-tainted; blends that launder NaN are covered only by the exact layer's tags (portable code)".into()];
    finalize(ctx, rep)
}
