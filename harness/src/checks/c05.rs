//! C05: quasi-linear work and linear workspace for every length.
use crate::core::*;
use crate::elem::{cnt_get, cnt_reset, Cnt, OP_ADD, OP_MUL, OP_OTHER, OP_SUB};
use crate::framework::{finalize, parse_key, Ctx, Report};
use crate::lens;
use crate::planparse;
use crate::util::{log2, par_map, Json};
use num_complex::Complex;
use rustfft::verif_hooks as vh;
use rustfft::{FftDirection, FftPlanner};

pub const MAX_NAIVE: usize = 32;

fn ops_len(n: usize, rep: &mut Report) {
    if n < 2 {
        return;
    }
    let limit = 64.0 * n as f64 * log2(n as f64);
    for d in DIRS {
        let f = match std::panic::catch_unwind(|| FftPlanner::<Cnt>::new().plan_fft(n, d)) {
            Ok(f) => f,
            Err(e) => {
                rep.violate(format!("C05|part=ops|dir={}|n={}|what=plan", dir_name(d), n), format!("planning panicked: {}", panic_text(&e)), Json::Null);
                continue;
            }
        };
        rep.states += 1;
        let zero = vec![Complex::new(Cnt(0.0), Cnt(0.0)); n];
        let dense: Vec<Complex<Cnt>> = dense_vec::<f64>(n, 9).iter().map(|c| Complex::new(Cnt(c.re), Cnt(c.im))).collect();
        let special: Vec<Complex<Cnt>> = (0..n).map(|j| Complex::new(Cnt(if j % 3 == 0 { 1.0 } else { 0.0 }), Cnt(if j % 2 == 0 { -1.0 } else { 1e10 }))).collect();
        for e in Entry::ALL {
            let mut counts: Vec<[u64; 6]> = Vec::new();
            for x in [&zero, &dense, &special] {
                let scr = vec![Complex::new(Cnt(0.0), Cnt(0.0)); e.scratch_len(f.as_ref())];
                let out = if e.has_output() { vec![Complex::new(Cnt(0.0), Cnt(0.0)); n] } else { vec![] };
                cnt_reset();
                let co = call(f.as_ref(), e, x, &out, &scr);
                let c = cnt_get();
                rep.evaluations += 1;
                rep.transitions += 1;
                rep.distinct_nontrivial += 1;
                if co.out.is_none() {
                    rep.violate(format!("C05|part=ops|dir={}|n={}|entry={}", dir_name(d), n, e.name()), format!("well-shaped call panicked: {}", co.panic_msg.unwrap_or_default()), Json::Null);
                    continue;
                }
                counts.push(c);
            }
            let key = format!("C05|part=ops|dir={}|n={}|entry={}", dir_name(d), n, e.name());
            if counts.len() == 3 {
                if counts[0] != counts[1] || counts[0] != counts[2] {
                    rep.violate(key.clone(), format!("operation counts depend on the input values: zero vector {:?}, dense vector {:?}, special vector {:?} (add, sub, mul, div, neg, other)", counts[0], counts[1], counts[2]), Json::Null);
                }
                let work = (counts[1][OP_ADD as usize] + counts[1][OP_SUB as usize] + counts[1][OP_MUL as usize]) as f64;
                let ratio = work / limit;
                let cur = rep.extra.get("worst_ops_ratio").and_then(|j| j.get("ratio")).and_then(|r| if let Json::Num(f) = r { Some(*f) } else { None }).unwrap_or(0.0);
                if ratio > cur {
                    rep.extra.insert("worst_ops_ratio".into(), Json::obj().with("ratio", ratio).with("case", key.as_str()).with("ops", work));
                }
                if work > limit {
                    rep.violate(key.clone(), format!("{} additions+subtractions+multiplications for one chunk of length {} exceed 64*n*log2(n) = {:.0}", work, n, limit), Json::Null);
                }
                if counts[1][OP_OTHER as usize] != 0 {
                    rep.notes.push(format!("n={}: {} comparisons/abs/rem on the element type", n, counts[1][OP_OTHER as usize]));
                }
            }
        }
    }
}

/// structural clause (no naive node above 32) and scratch clause, all planners, by construction
fn structure_len<T: Real>(n: usize, rep: &mut Report) {
    for pk in PK::ALL {
        let mut pl = match AnyPlanner::<T>::new(pk) {
            Some(p) => p,
            None => continue,
        };
        for d in DIRS {
            vh::record(true);
            let r = plan_catch(&mut pl, n, d);
            let dfts = vh::take_dft_events();
            let plans = vh::take_plan_events();
            vh::record(false);
            let f = match r {
                Ok(f) => f,
                Err(_) => continue, // C04 owns planning panics
            };
            rep.evaluations += 1;
            rep.transitions += 1;
            if n >= 2 {
                rep.distinct_nontrivial += 1;
            }
            rep.states += 1;
            let key = format!("C05|part=structure|pk={}|T={}|dir={}|n={}", pk.name(), T::NAME, dir_name(d), n);
            if let Some(big) = dfts.iter().copied().filter(|&l| l > MAX_NAIVE).max() {
                rep.violate(format!("{}|clause=naive", key), format!("the plan for length {} contains a naive O(n^2) DFT of length {} (> {}); plan: {}", n, big, MAX_NAIVE, plans.first().cloned().unwrap_or_default().chars().take(200).collect::<String>()), Json::Null);
            }
            let lim = 12 * n + 64;
            for (nm, s) in [("inplace", f.get_inplace_scratch_len()), ("outofplace", f.get_outofplace_scratch_len()), ("immutable", f.get_immutable_scratch_len())] {
                let ratio = s as f64 / lim as f64;
                let cur = rep.extra.get("worst_scratch_ratio").and_then(|j| j.get("ratio")).and_then(|r| if let Json::Num(f) = r { Some(*f) } else { None }).unwrap_or(0.0);
                if ratio > cur {
                    rep.extra.insert("worst_scratch_ratio".into(), Json::obj().with("ratio", ratio).with("case", format!("{}|scratch={}", key, nm)).with("len", s));
                }
                if s > lim {
                    rep.violate(format!("{}|clause=scratch:{}", key, nm), format!("advertised {} scratch length {} exceeds 12n+64 = {}", nm, s, lim), Json::Null);
                }
            }
        }
    }
}

/// plan-only: the scalar / SSE recipe for every n < max must not contain a Dft node above 32
fn plan_only_block<T: Real>(pk: PK, lo: usize, hi: usize, rep: &mut Report) {
    let mut pl = match AnyPlanner::<T>::new(pk) {
        Some(p) => p,
        None => return,
    };
    for n in lo..hi {
        let s = match std::panic::catch_unwind(std::panic::AssertUnwindSafe(|| pl.plan_only(n, FftDirection::Forward))) {
            Ok(Some(s)) => s,
            _ => continue,
        };
        rep.evaluations += 1;
        rep.transitions += 1;
        if n >= 2 {
            rep.distinct_nontrivial += 1;
        }
        if pk == PK::Avx {
            // AVX plans have no naive node by construction of the plan type (bases are butterflies / Rader / Bluestein);
            // lengths 0 and 1 are the only ones built as Dft, which the constructed range confirms
            continue;
        }
        if let Ok(v) = planparse::parse(&s) {
            let m = planparse::max_dft(&v);
            if m as usize > MAX_NAIVE {
                rep.violate(format!("C05|part=plan_only|pk={}|T={}|n={}|clause=naive", pk.name(), T::NAME, n), format!("the recipe for length {} contains a naive DFT of length {}: {}", n, m, s.chars().take(200).collect::<String>()), Json::Null);
            }
        }
    }
}

/// One planner first asked for a few large lengths, then swept over small n: the bounds must still hold for every n.
fn primed_sweep_cnt(bigs: &[usize], nmax: usize, rep: &mut Report) {
    let mut pl = FftPlanner::<Cnt>::new();
    for &b in bigs {
        let _ = std::panic::catch_unwind(std::panic::AssertUnwindSafe(|| {
            pl.plan_fft(b, FftDirection::Forward);
            pl.plan_fft(b, FftDirection::Inverse);
        }));
    }
    for n in 2..=nmax {
        let d = if n % 2 == 0 { FftDirection::Forward } else { FftDirection::Inverse };
        let f = match std::panic::catch_unwind(std::panic::AssertUnwindSafe(|| pl.plan_fft(n, d))) {
            Ok(f) => f,
            Err(_) => continue,
        };
        let limit = 64.0 * n as f64 * log2(n as f64);
        let key = format!("C05|part=primed|T=Cnt|primed_with={:?}|dir={}|n={}", bigs, dir_name(d), n);
        let x: Vec<Complex<Cnt>> = dense_vec::<f64>(n, 9).iter().map(|c| Complex::new(Cnt(c.re), Cnt(c.im))).collect();
        for e in [Entry::InPlace, Entry::Immut] {
            let scr = vec![Complex::new(Cnt(0.0), Cnt(0.0)); e.scratch_len(f.as_ref())];
            let out = if e.has_output() { vec![Complex::new(Cnt(0.0), Cnt(0.0)); n] } else { vec![] };
            cnt_reset();
            let co = call(f.as_ref(), e, &x, &out, &scr);
            let c = cnt_get();
            rep.evaluations += 1;
            rep.transitions += 1;
            rep.distinct_nontrivial += 1;
            if co.out.is_none() {
                continue;
            }
            let work = (c[OP_ADD as usize] + c[OP_SUB as usize] + c[OP_MUL as usize]) as f64;
            if work > limit {
                rep.violate(format!("{}|entry={}", key, e.name()), format!("after the planner had planned {:?}, the transform for n={} performs {} operations per chunk (> 64*n*log2(n) = {:.0})", bigs, n, work, limit), Json::Null);
            }
        }
        let lim = 12 * n + 64;
        for (nm, s) in [("inplace", f.get_inplace_scratch_len()), ("outofplace", f.get_outofplace_scratch_len()), ("immutable", f.get_immutable_scratch_len())] {
            if s > lim {
                rep.violate(format!("{}|clause=scratch:{}", key, nm), format!("after the planner had planned {:?}, n={} advertises {} scratch length {} (> 12n+64 = {})", bigs, n, nm, s, lim), Json::Null);
            }
        }
    }
}
fn primed_sweep_float<T: Real>(pk: PK, bigs: &[usize], nmax: usize, rep: &mut Report) {
    let mut pl = match AnyPlanner::<T>::new(pk) {
        Some(p) => p,
        None => return,
    };
    for &b in bigs {
        let _ = plan_catch(&mut pl, b, FftDirection::Forward);
        let _ = plan_catch(&mut pl, b, FftDirection::Inverse);
    }
    for n in 2..=nmax {
        for d in DIRS {
            vh::record(true);
            let r = plan_catch(&mut pl, n, d);
            let dfts = vh::take_dft_events();
            vh::record(false);
            let f = match r {
                Ok(f) => f,
                Err(_) => continue,
            };
            rep.evaluations += 1;
            rep.transitions += 1;
            rep.distinct_nontrivial += 1;
            let key = format!("C05|part=primed|pk={}|T={}|primed_with={:?}|dir={}|n={}", pk.name(), T::NAME, bigs, dir_name(d), n);
            if let Some(big) = dfts.iter().copied().filter(|&l| l > MAX_NAIVE).max() {
                rep.violate(format!("{}|clause=naive", key), format!("after the planner had planned {:?}, the plan for {} constructs a naive DFT of length {}", bigs, n, big), Json::Null);
            }
            let lim = 12 * n + 64;
            for (nm, s) in [("inplace", f.get_inplace_scratch_len()), ("outofplace", f.get_outofplace_scratch_len()), ("immutable", f.get_immutable_scratch_len())] {
                if s > lim {
                    rep.violate(format!("{}|clause=scratch:{}", key, nm), format!("after the planner had planned {:?}, n={} advertises {} scratch length {} (> 12n+64 = {})", bigs, n, nm, s, lim), Json::Null);
                }
            }
        }
    }
}

pub fn run(ctx: &Ctx) -> i32 {
    let t = ctx.tier;
    let mut rep = Report::new();
    if let Some(r) = &ctx.replay {
        let k = r.get("key").and_then(|k| k.as_str()).unwrap_or("").to_string();
        let m = parse_key(&k);
        let n: usize = m.get("n").and_then(|s| s.parse().ok()).unwrap_or(2);
        for _ in 0..2 {
            let mut r1 = Report::new();
            match m.get("part").map(|s| s.as_str()) {
                Some("ops") => ops_len(n, &mut r1),
                Some("primed") => {
                    let bigs: Vec<usize> = m.get("primed_with").map(|s| s.trim_matches(|c| c == '[' || c == ']').split(',').filter_map(|x| x.trim().parse().ok()).collect()).unwrap_or_default();
                    primed_sweep_cnt(&bigs, n, &mut r1);
                    for pk in PK::DISTINCT {
                        primed_sweep_float::<f32>(pk, &bigs, n, &mut r1);
                        primed_sweep_float::<f64>(pk, &bigs, n, &mut r1);
                    }
                    r1.violations.retain(|v| v.key.contains(&format!("|n={}", n)));
                }
                Some("plan_only") => {
                    let pk = PK::parse(m.get("pk").map(|s| s.as_str()).unwrap_or("scalar")).unwrap_or(PK::Scalar);
                    plan_only_block::<f64>(pk, n, n + 1, &mut r1);
                    plan_only_block::<f32>(pk, n, n + 1, &mut r1);
                }
                _ => {
                    structure_len::<f32>(n, &mut r1);
                    structure_len::<f64>(n, &mut r1);
                }
            }
            println!("replay: {}", if r1.violations.is_empty() { "does not reproduce".to_string() } else { format!("reproduces: {}", r1.violations[0].what) });
            rep = r1;
        }
        rep.evaluations = rep.evaluations.max(2);
        rep.distinct_nontrivial = rep.distinct_nontrivial.max(2);
        rep.rule = "replay of one recorded case, run twice".into();
        rep.sample(Json::Str(k));
        std::env::set_var("VERIF_EVIDENCE_PART", "replay");
        return finalize(ctx, rep);
    }
    let ops_n = t.pick(4096, 32768);
    let mut l: Vec<usize> = (2..=ops_n).collect();
    let pool = lens::thin(&lens::pool(ops_n, t.pick(1 << 16, 1 << 19)), t.pick(24, 120));
    l.extend(pool.iter().map(|x| x.0));
    l.reverse();
    let parts = par_map(&l, |_, &n| {
        let mut r = Report::new();
        ops_len(n, &mut r);
        r
    });
    for p in parts.into_iter().rev() {
        rep.merge(p);
    }
    let st_n = t.pick(4096, 65536);
    let mut l: Vec<usize> = (0..=st_n).collect();
    let pool2 = lens::thin(&lens::pool(st_n, t.pick(1 << 17, 1 << 21)), t.pick(30, 200));
    l.extend(pool2.iter().map(|x| x.0));
    // every octave above 2^16: the first prime of each class (Rader with 3-/11-/23-smooth p-1, Bluestein, safe prime)
    // and the last prime of the octave -- the planners' inner-length choices for large primes are what blows scratch up
    let oct_primes: Vec<usize> = lens::pool(1 << 16, t.pick(1 << 20, 1 << 22)).into_iter().filter(|x| x.1.starts_with("prime:")).map(|x| x.0).collect();
    for p in &oct_primes {
        if !l.contains(p) {
            l.push(*p);
        }
    }
    l.sort();
    l.reverse();
    let parts = par_map(&l, |_, &n| {
        let mut r = Report::new();
        structure_len::<f32>(n, &mut r);
        structure_len::<f64>(n, &mut r);
        r
    });
    for p in parts.into_iter().rev() {
        rep.merge(p);
    }
    // ---- histories [large lengths..., n]: the bounds must not depend on what the planner planned before
    let primings: Vec<Vec<usize>> = vec![vec![16384, 65536], vec![3 * 4096, 4096], vec![10007, 2048], vec![1 << 15]];
    let pn = t.pick(1024, 4096);
    let mut pj: Vec<(usize, usize)> = Vec::new(); // (priming index, kind: 0 = Cnt, 1.. = planner x type)
    for i in 0..primings.len() {
        for k in 0..7 {
            pj.push((i, k));
        }
    }
    let parts = par_map(&pj, |_, &(i, k)| {
        let mut r = Report::new();
        let b = &primings[i];
        match k {
            0 => primed_sweep_cnt(b, pn, &mut r),
            1 => primed_sweep_float::<f32>(PK::Scalar, b, pn, &mut r),
            2 => primed_sweep_float::<f64>(PK::Scalar, b, pn, &mut r),
            3 => primed_sweep_float::<f32>(PK::Sse, b, pn, &mut r),
            4 => primed_sweep_float::<f64>(PK::Sse, b, pn, &mut r),
            5 => primed_sweep_float::<f32>(PK::Avx, b, pn, &mut r),
            _ => primed_sweep_float::<f64>(PK::Avx, b, pn, &mut r),
        }
        r
    });
    for p in parts {
        rep.merge(p);
    }
    let pmax: usize = t.pick(1 << 19, 1 << 22);
    let block = 8192;
    let mut blocks = Vec::new();
    for pk in [PK::Scalar, PK::Sse] {
        let mut lo = 0;
        while lo < pmax {
            blocks.push((pk, lo));
            lo += block;
        }
    }
    let parts = par_map(&blocks, |_, &(pk, lo)| {
        let mut r = Report::new();
        plan_only_block::<f64>(pk, lo, (lo + block).min(pmax), &mut r);
        r
    });
    for p in parts {
        rep.merge(p);
    }
    rep.sample(Json::Str(format!("C05|part=ops|dir=fwd|n={}|entry=immut", ops_n - 1)));
    rep.sample(Json::Str("C05|part=structure|pk=avx|T=f32|dir=inv|n=2063".into()));
    rep.sample(Json::Str(format!("C05|part=plan_only|pk=sse|T=f64|n={}", pmax - 1)));
    rep.set("pool_lengths_ops", Json::Arr(pool.iter().map(|x| Json::Int(x.0 as i64)).collect()));
    rep.set("octave_primes_structure", Json::Arr(oct_primes.iter().map(|x| Json::Int(*x as i64)).collect()));
    rep.rule = format!(
        "(a) FftPlanner::<Cnt> (operation-counting element type) x {{fwd,inv}} x 4 entry points x every n in 2..={on} (+ pool lengths): +,-,* counted for one chunk on three inputs (zero, dense, special values) -- the three counts must be equal (input-independence decided, not assumed) and <= 64*n*log2(n); (b) planners {{auto,scalar,sse,avx}} x {{f32,f64}} x {{fwd,inv}} x every n in 0..={sn} (+ pool lengths, + per octave up to 2^20 (quick) / 2^22 (thorough) the first prime of every class and the last prime): the construction event log (hook H4) contains no naive Dft of length > 32; (c) same range: the three advertised scratch lengths <= 12n+64; plan-only: scalar and SSE recipes for every n < {pm} contain no Dft node above 32; primed planners: one planner first asked for large lengths ({{16384,65536}}, {{12288,4096}}, {{10007,2048}}, {{32768}}) and then for every n in 2..={pn}: operation count (Cnt), naive nodes and scratch bounds again. Non-trivial: n >= 2.",
        on = ops_n,
        sn = st_n,
        pm = pmax,
        pn = pn
    );
    rep.exhaustive = true;
    rep.assumptions = vec!["operation counts are those of the portable generic code (what 'the portable planned transform' means); SIMD instruction counts are not observable".into(), "Dft construction events come from hook H4 in Dft::new".into()];
    finalize(ctx, rep)
}
