//! C03: no call through the safe API touches memory outside the caller's buffers.
use crate::framework::{finalize, Ctx};
use crate::memcheck::{self, Mode};
use crate::util::Json;

pub fn run(ctx: &Ctx) -> i32 {
    if let Some(r) = &ctx.replay {
        let key = r.get("key").and_then(|k| k.as_str()).unwrap_or("").to_string();
        if key.contains("|tree=") {
            let mut rep = crate::framework::Report::new();
            if !crate::checks::c12::replay_tree(ctx, &key, &mut rep) {
                return 2;
            }
            rep.evaluations = 2;
            rep.distinct_nontrivial = 2;
            rep.rule = "replay of one composite over an adversarial inner transform in a worker process, run twice".into();
            rep.sample(Json::Str(key));
            std::env::set_var("VERIF_EVIDENCE_PART", "replay");
            return finalize(ctx, rep);
        }
        if key.contains("monitor=memcheck") {
            let mut rep = crate::framework::Report::new();
            crate::vg::replay(ctx, &key, &mut rep);
            rep.evaluations = 2;
            rep.distinct_nontrivial = 2;
            rep.rule = "replay of one recorded case under valgrind memcheck, run twice".into();
            rep.sample(Json::Str(key));
            std::env::set_var("VERIF_EVIDENCE_PART", "replay");
            return finalize(ctx, rep);
        }
    }
    let mut rep = memcheck::run_parent(Mode::C03, ctx);
    if ctx.replay.is_some() {
        std::env::set_var("VERIF_EVIDENCE_PART", "replay");
        return finalize(ctx, rep);
    }
    let (l, dense_n) = memcheck::mem_lens(Mode::C03, ctx.tier);
    rep.set("lengths_run", l.len());
    rep.set("max_len", l.iter().copied().max().unwrap_or(0));
    rep.sample(Json::Str("C03|pk=avx|T=f32|dir=fwd|n=37|entry=immut|data=74|out=74|scratch=<advertised>|place=end".into()));
    rep.sample(Json::Str("C03|pk=sse|T=f64|dir=inv|n=100|entry=outofplace|data=100|out=99|scratch=<advertised>|place=start  (ill-shaped: must end in a panic, not in a fault)".into()));
    rep.rule = format!(
        "build flavour {fl}: planners x {{f32,f64}} x {{fwd,inv}} x every n in 1..={dn} (plus pool lengths up to {ph}) x 4 entry points x chunk counts 1..={k} with scratch of EXACTLY the advertised length, plus the ill-shaped variants (data k*n+-1, output +-1 / +-n / empty, scratch advertised-1 / 0) x buffer placement {{flush against the trailing guard page, flush against the leading guard page}}; every buffer lives between PROT_NONE pages in a worker process; a fatal signal (guard page hit, or an 'unsafe precondition violated' abort / index debug_assert in the debug-assertion flavour) is a violation attributed to the executing case. Ordinary panics are not memory events. Non-trivial: n >= 2.",
        fl = ctx.flavour,
        dn = dense_n,
        ph = ctx.tier.pick(1 << 14, 1 << 17),
        k = ctx.tier.pick(3, 8)
    );
    rep.exhaustive = true;
    rep.assumptions = vec![
        "over-reads that stay inside another chunk of the same caller buffer are not violations of the property and are not flagged".into(),
        "reads of the instance's own tables past their end are seen by the debug-assertion flavour's index checks and, on the reduced length set of the memcheck pass, by valgrind".into(),
    ];
    // composites over an adversarial (safe, promise-breaking) inner transform, both flavours
    crate::checks::c12::run_adversarial_for_c03(ctx, &mut rep);
    rep.rule.push_str(" ADVERSARIAL INNER TRANSFORMS: every public constructor over a safe user-written Fft whose len() and scratch lengths change after the composite was constructed (see C12's rule text for the tree set), all four entry points, guard pages at both placements: panics are fine, a fatal signal or an unsafe-precondition abort is a violation.");
    if ctx.flavour == "rel" {
        // second monitor: the same kind of calls with heap buffers under valgrind memcheck (instance tables included)
        crate::vg::run_pass(ctx, &mut rep);
        rep.rule.push_str(" MEMCHECK PASS (release flavour): planners {scalar,sse,avx} x {f32,f64} x {fwd,inv} x the lengths listed under memcheck_lengths x 4 entry points x k in 1..=3, exactly-sized heap buffers, executed under valgrind memcheck (--partial-loads-ok=no, 128-byte red zones); every 'Invalid read/write' record with a rustfft frame is a violation attributed to the executing case: this covers the instance's own heap tables, which guard pages cannot see.");
    }
    finalize(ctx, rep)
}
