//! C02: rounding error grows at most logarithmically with the length.
use crate::core::*;
use crate::floatlayer::{self, FloatCfg};
use crate::framework::{finalize, Ctx, Report};
use crate::lens;
use crate::util::Json;

pub const QUAD_MAX_Q: usize = 512;
pub const QUAD_MAX_T: usize = 2048;

pub fn run(ctx: &Ctx) -> i32 {
    let t = ctx.tier;
    let quad = t.pick(QUAD_MAX_Q, QUAD_MAX_T);
    if let Some(r) = &ctx.replay {
        let key = r.get("key").and_then(|k| k.as_str()).unwrap_or("").to_string();
        let mut rep = Report::new();
        for round in 0..2 {
            match floatlayer::replay(&key, ctx.seed, 1.0, QUAD_MAX_T) {
                Ok(Some(w)) => {
                    println!("replay round {}: reproduces: {}", round, w);
                    if round == 1 {
                        rep.violate(key.clone(), w, Json::Null);
                    }
                }
                Ok(None) => println!("replay round {}: does not reproduce", round),
                Err(e) => {
                    eprintln!("replay failed: {}", e);
                    return 2;
                }
            }
        }
        rep.evaluations = 2;
        rep.distinct_nontrivial = 2;
        rep.rule = "replay of one recorded case, run twice".into();
        rep.sample(Json::Str(key));
        std::env::set_var("VERIF_EVIDENCE_PART", "replay");
        return finalize(ctx, rep);
    }
    let dense_n = quad;
    let mut l: Vec<usize> = lens::dense(dense_n);
    let pool = lens::pool(dense_n, t.pick(1 << 16, 1 << 20));
    let pool_sel = lens::thin(&pool, t.pick(64, 500));
    l.extend(pool_sel.iter().map(|x| x.0));
    let big: Vec<usize> = lens::beyond_u16(t == crate::framework::Tier::Thorough).iter().map(|x| x.0).collect();
    for b in &big {
        if !l.contains(b) {
            l.push(*b);
        }
    }
    let cfg = FloatCfg {
        prop: "C02",
        planners: PK::ALL.to_vec(),
        entries: Entry::ALL.to_vec(),
        lens: l,
        full_basis_max: t.pick(128, 512),
        quad_max: quad,
        use_basis: true,
        use_struct: true,
        tol_mult: 1.0,
        f32_on: true,
        f64_on: true,
        seed: ctx.seed,
        key_extra: String::new(),
    };
    let mut rep = floatlayer::run(&cfg);
    let huge = crate::checks::c01::huge_list(t == crate::framework::Tier::Thorough);
    crate::checks::c01::huge_lengths("C02", &huge, 1.0, &mut rep);
    rep.set("huge_lengths", Json::Arr(huge.iter().map(|x| Json::Int(*x as i64)).collect()));
    rep.set("pool_lengths", Json::Arr(pool_sel.iter().map(|x| Json::Int(x.0 as i64)).collect()));
    rep.set("lengths_beyond_2^16", Json::Arr(big.iter().map(|x| Json::Int(*x as i64)).collect()));
    rep.rule = format!(
        "planners {{auto,scalar,sse,avx}} x {{f32,f64}} x {{fwd,inv}} x 4 entry points x every n in 0..={dn}: STRUCT alphabet (zero, ones, alternating, on-grid tones f in {{1,n/2,n-1}}, off-grid tone, spikes, 8-tone dense, ramp, wide dynamic range 2^+-30 / 2^+-200, three dense pseudo-random distributions) against an O(n^2) double-double reference, complete impulse basis for n <= {fb} and 22 positions x2 above; plus {pc} pool lengths up to {ph} with the closed-form members of the alphabet, plus one length of every plan class just above 2^16 and up to ~2^20 (lengths_beyond_2^16), plus the huge_lengths in the millions (three planners, two entry points, impulses e_0, e_1, e_(n/2+1), ones, alternating against directly evaluated spectra); oracle: relative L2 error <= 16*eps*log2(2n) (+ eps where the reference is the closed form of the unrounded input). Non-trivial: n >= 2 and non-zero input; distinct (config, n, entry, input) tuples are counted.",
        dn = dense_n,
        fb = cfg.full_basis_max,
        pc = pool_sel.len(),
        ph = t.pick(1 << 16, 1 << 20)
    );
    rep.exhaustive = true;
    rep.assumptions = vec![
        "rounding error is not linear in the input: decided for every configuration in range and every vector of the stated finite alphabet, not for all inputs".into(),
        "reference DFT: twiddles from an own double-double sincos (self-checked at start-up), accumulation in double-double (f64 results) or f64 (f32 results)".into(),
    ];
    finalize(ctx, rep)
}
