//! C01: every planned FFT computes the unnormalised DFT in ascending-frequency order.
use crate::core::*;
use crate::exact::{self, ExactStats};
use crate::floatlayer::{self, FloatCfg};
use crate::fp::{self, Fp};
use crate::framework::{finalize, parse_key, Ctx, Report};
use crate::inputs::impulse_positions;
use crate::lens;
use crate::util::{par_map, Json};
use rustfft::{Fft, FftDirection, FftPlanner};
use std::sync::Arc;

pub const TOL_MULT: f64 = 4.0;
pub const QUAD_MAX: usize = 4096;

/// exact layer for one (n, dir): planned by the automatic planner instantiated with Fp
pub fn exact_planned(prop: &str, n: usize, dir: FftDirection, full_basis: bool, dense: usize, seed: u64, entries: &[Entry], rep: &mut Report) {
    for which in 0..2usize {
        let key = format!("{}|layer=exact|pk=auto|T=Fp|dir={}|n={}|prime={}", prop, dir_name(dir), n, which);
        let builder = || -> Arc<dyn Fft<Fp>> { FftPlanner::<Fp>::new().plan_fft(n, dir) };
        let built = match exact::build_in_field(&builder, n, which) {
            Err(msg) => {
                rep.violate(key, format!("planning panicked for a generic element type: {}", msg), Json::Null);
                return;
            }
            Ok(Err(m)) => {
                rep.notes.push(format!("exact layer skipped for n={}: {}", n, m));
                return;
            }
            Ok(Ok(b)) => b,
        };
        if built.build_flags & (fp::FLAG_UNKNOWN_CONST | fp::FLAG_BINDING | fp::FLAG_BAD_LEN) != 0 {
            // the exact image cannot be formed (e.g. a new float constant): not a verdict on C01
            rep.notes.push(format!("exact layer undecided for n={} dir={}: {}", n, dir_name(dir), fp::flag_names(built.build_flags)));
            rep.extra.entry("exact_undecided".into()).and_modify(|v| if let Json::Int(c) = v { *c += 1 }).or_insert(Json::Int(1));
            return;
        }
        if built.fft.len() != n || built.fft.fft_direction() != dir {
            rep.violate(key, "planned transform reports the wrong length or direction".into(), Json::Null);
            return;
        }
        let mut st = ExactStats::default();
        let pos = impulse_positions(n, full_basis);
        exact::check_transform(built.fft.as_ref(), &built.field, dir, entries, &pos, dense, seed, &exact::describe(dir, n), &mut st);
        rep.states += 1;
        rep.transitions += st.calls;
        rep.evaluations += st.calls;
        if n >= 2 {
            rep.distinct_nontrivial += st.calls;
        }
        rep.extra.entry("exact_matrix_entries_compared".into()).and_modify(|v| if let Json::Int(c) = v { *c += st.entries_compared as i64 }).or_insert(Json::Int(st.entries_compared as i64));
        if which == 0 && (n == 37 || n == 96) {
            rep.sample(Json::obj().with("case", key.as_str()).with("p", built.field.p).with("M", built.field.m).with("calls", st.calls));
        }
        let undecidable = st.flags & (fp::FLAG_UNKNOWN_CONST | fp::FLAG_BINDING | fp::FLAG_BAD_LEN);
        if undecidable != 0 {
            rep.notes.push(format!("exact layer undecided for n={}: {}", n, fp::flag_names(undecidable)));
            return;
        }
        if !st.panics.is_empty() {
            rep.violate(key.clone(), format!("well-shaped call panicked: {}", st.panics[0]), Json::Null);
        }
        if !st.mismatches.is_empty() {
            rep.violate(key.clone(), format!("exact DFT identity fails in F_p (p={}): {}", built.field.p, st.mismatches[0]), Json::Arr(st.mismatches.iter().map(|s| Json::Str(s.clone())).collect()));
        }
        if prop == "C14" && (st.flags | built.build_flags) & fp::FLAG_RATIONAL_CONST != 0 {
            rep.violate(key.clone(), "a rational constant (such as 1/len) reached the element type rounded through f64 instead of being computed with the type's own ring operations: with exact or higher-precision arithmetic the transform is no longer the exact DFT".into(), Json::Null);
        }
        if st.flags & (fp::FLAG_NONLINEAR | fp::FLAG_NONRING | fp::FLAG_DIV_DATA) != 0 {
            // the basis argument needs a linear, data-oblivious circuit
            rep.violate(key.clone(), format!("executed circuit is not linear/data-oblivious: {}", fp::flag_names(st.flags)), Json::Null);
        }
    }
}


/// 5*2^18 ... 2^22: 9 and more radix-4 layers, every residue of n mod 4 (3^13 and 5^9 are odd, 2*3^12*... even but not
/// divisible by 4), the first lengths whose tables exceed 2^20 entries.
pub fn huge_list(thorough: bool) -> Vec<usize> {
    let mut v = vec![5usize << 18, 1 << 21, 1 << 22, 1594323 /* 3^13 */, 1953125 /* 5^9 */];
    if thorough {
        v.extend_from_slice(&[3 << 20, 2 * 531441 * 3 /* 2*3^13 */, 7 << 18, 9 << 19, 3 << 21, 1 << 23, 7 * 177147 /* 7*3^11 */, 11 * 177147, 2 * 1953125, 4782969 /* 3^14 */]);
    }
    v
}

/// Lengths in the millions (bit-reversal with 9+ radix-4 layers, 32-bit index products, ...): no trig table is built.
/// Inputs with trig-free spectra (e_0, ones, alternating) plus two impulses whose spectrum is evaluated directly in
/// f64 from an integer-reduced angle (error ~1e-16, far inside the allowance). One job per (n, planner, type).
pub fn huge_lengths(prop: &'static str, lens: &[usize], tol_mult: f64, rep: &mut Report) {
    let mut jobs: Vec<(usize, PK, bool)> = Vec::new();
    for &n in lens {
        for pk in PK::DISTINCT {
            for is32 in [true, false] {
                jobs.push((n, pk, is32));
            }
        }
    }
    fn one<T: Real>(prop: &str, n: usize, pk: PK, tol_mult: f64, rep: &mut Report) {
        let mut pl = match AnyPlanner::<T>::new(pk) {
            Some(p) => p,
            None => return,
        };
        let b = bound::<T>(n) * tol_mult + 4.0 * f64::EPSILON;
        // every buffer of the job is allocated ONCE: blocks of 32 MiB and more are mmap'ed by the allocator, and 16
        // threads mapping, faulting in and unmapping them for every call spend their time in the kernel
        let z = C::new(T::from64(0.0), T::from64(0.0));
        let mut x: Vec<C<T>> = vec![z; n];
        let mut data: Vec<C<T>> = vec![z; n];
        let mut out: Vec<C<T>> = vec![z; n];
        let mut want: Vec<C<f64>> = vec![C::new(0.0, 0.0); n];
        for d in DIRS {
            let f = match plan_catch(&mut pl, n, d) {
                Ok(f) => f,
                Err(m) => {
                    rep.violate(format!("{}|part=huge|pk={}|T={}|dir={}|n={}|in=plan", prop, pk.name(), T::NAME, dir_name(d), n), format!("planning panicked: {}", m), Json::Null);
                    continue;
                }
            };
            rep.states += 1;
            let mut scr: Vec<C<T>> = vec![z; f.get_inplace_scratch_len().max(f.get_immutable_scratch_len())];
            let sign = if d == FftDirection::Forward { -1.0 } else { 1.0 };
            let mut names: Vec<String> = vec!["impulse:re:0".into(), "ones".into(), "impulse:re:1".into(), format!("impulse:re:{}", n / 2 + 1)];
            if n % 2 == 0 {
                names.push("alternating".into());
            }
            for name in &names {
                // fill input and expected spectrum in place
                let one = C::new(T::from64(1.0), T::from64(0.0));
                match name.as_str() {
                    "ones" => {
                        x.iter_mut().for_each(|v| *v = one);
                        want.iter_mut().for_each(|v| *v = C::new(0.0, 0.0));
                        want[0] = C::new(n as f64, 0.0);
                    }
                    "alternating" => {
                        x.iter_mut().enumerate().for_each(|(j, v)| *v = C::new(T::from64(if j % 2 == 0 { 1.0 } else { -1.0 }), T::from64(0.0)));
                        want.iter_mut().for_each(|v| *v = C::new(0.0, 0.0));
                        want[n / 2] = C::new(n as f64, 0.0);
                    }
                    imp => {
                        let j: usize = imp.rsplit(':').next().and_then(|t| t.parse().ok()).unwrap_or(0);
                        x.iter_mut().for_each(|v| *v = z);
                        x[j] = one;
                        let mut idx = 0usize; // (j*k) mod n, incrementally
                        for w in want.iter_mut() {
                            let a = sign * 2.0 * std::f64::consts::PI * (idx as f64) / n as f64;
                            *w = C::new(a.cos(), a.sin());
                            idx += j;
                            if idx >= n {
                                idx -= n;
                            }
                        }
                    }
                }
                let wn = crate::refdft::norm2(&want);
                for e in [Entry::InPlace, Entry::Immut] {
                    let key = format!("{}|part=huge|pk={}|T={}|dir={}|n={}|entry={}|in={}", prop, pk.name(), T::NAME, dir_name(d), n, e.name(), name);
                    rep.evaluations += 1;
                    rep.transitions += 1;
                    rep.distinct_nontrivial += 1;
                    data.copy_from_slice(&x);
                    let sl = e.scratch_len(f.as_ref());
                    let r = std::panic::catch_unwind(std::panic::AssertUnwindSafe(|| match e {
                        Entry::InPlace => f.process_with_scratch(&mut data, &mut scr[..sl]),
                        _ => f.process_immutable_with_scratch(&x, &mut out, &mut scr[..sl]),
                    }));
                    if r.is_err() {
                        rep.violate(key, "well-shaped call panicked".into(), Json::Null);
                        continue;
                    }
                    let o: &[C<T>] = if e == Entry::InPlace { &data } else { &out };
                    let mut e2 = 0.0f64;
                    for (a, w) in o.iter().zip(want.iter()) {
                        let (dr, di) = (a.re.to64() - w.re, a.im.to64() - w.im);
                        e2 += dr * dr + di * di;
                    }
                    let err = e2.sqrt();
                    if !(err <= b * wn) {
                        rep.violate(key, format!("relative L2 error {:e} exceeds allowance {:e}", err / wn, b), Json::Null);
                    }
                }
            }
        }
    }
    let parts = par_map(&jobs, |_, &(n, pk, is32)| {
        let mut r = Report::new();
        let t0 = std::time::Instant::now();
        if is32 {
            one::<f32>(prop, n, pk, tol_mult, &mut r);
        } else {
            one::<f64>(prop, n, pk, tol_mult, &mut r);
        }
        if std::env::var("VERIF_TIMING").is_ok() {
            eprintln!("huge {} {} n={} took {:.1}s", pk.name(), if is32 { "f32" } else { "f64" }, n, t0.elapsed().as_secs_f64());
        }
        r
    });
    for p in parts {
        rep.merge(p);
    }
}

pub fn run(ctx: &Ctx) -> i32 {
    if let Some(r) = &ctx.replay {
        return replay(ctx, r);
    }
    let t = ctx.tier;
    if std::env::var("VERIF_ONLY_HUGE").is_ok() {
        let mut rep = Report::new();
        // debugging aid: only the huge-length part, at this tier's list, tolerance multiplier from VERIF_HUGE_TOL
        let tm: f64 = std::env::var("VERIF_HUGE_TOL").ok().and_then(|s| s.parse().ok()).unwrap_or(TOL_MULT);
        huge_lengths("C01", &huge_list(t == crate::framework::Tier::Thorough), tm, &mut rep);
        std::env::set_var("VERIF_EVIDENCE_PART", "debug");
        return finalize(ctx, rep);
    }
    // ---- float layer
    let dense_n = t.pick(384, 2048);
    let mut lens_f: Vec<usize> = lens::dense(dense_n);
    let pool = lens::pool(dense_n, t.pick(1 << 16, 1 << 20));
    let pool_sel = lens::thin(&pool, t.pick(48, 400));
    lens_f.extend(pool_sel.iter().map(|x| x.0));
    let cfg = FloatCfg {
        prop: "C01",
        planners: PK::ALL.to_vec(),
        entries: Entry::ALL.to_vec(),
        lens: lens_f,
        full_basis_max: dense_n,
        quad_max: t.pick(0, QUAD_MAX),
        use_basis: true,
        use_struct: true,
        tol_mult: TOL_MULT,
        f32_on: true,
        f64_on: true,
        seed: ctx.seed,
        key_extra: String::new(),
    };
    let mut rep = floatlayer::run(&cfg);
    // every prime above the dense range, lighter alphabet (reduced impulse positions, the three distinct planners)
    let prime_hi = t.pick(8192, 65536);
    let primes = lens::primes_between(dense_n, prime_hi);
    let cfg_p = FloatCfg { planners: PK::DISTINCT.to_vec(), entries: t.pick(vec![Entry::InPlace, Entry::Immut], Entry::ALL.to_vec()), lens: primes.clone(), full_basis_max: 0, use_struct: false, ..cfg.clone() };
    let pr = floatlayer::run(&cfg_p);
    rep.merge(pr);
    // lengths beyond 2^16 (16-bit index arithmetic), lightest alphabet
    let big: Vec<usize> = lens::beyond_u16(t == crate::framework::Tier::Thorough).iter().map(|x| x.0).collect();
    let cfg_b = FloatCfg { planners: PK::DISTINCT.to_vec(), entries: t.pick(vec![Entry::InPlace, Entry::Immut], Entry::ALL.to_vec()), lens: big.clone(), full_basis_max: 0, use_struct: true, ..cfg.clone() };
    let br = floatlayer::run(&cfg_b);
    rep.merge(br);
    rep.set("lengths_beyond_2^16", Json::Arr(big.iter().map(|x| Json::Int(*x as i64)).collect()));
    // lengths in the millions, trig-free / direct references
    let huge: Vec<usize> = huge_list(t == crate::framework::Tier::Thorough);
    huge_lengths("C01", &huge, TOL_MULT, &mut rep);
    rep.set("huge_lengths", Json::Arr(huge.iter().map(|x| Json::Int(*x as i64)).collect()));
    rep.set("all_primes_up_to", prime_hi);
    rep.set("primes_run", primes.len());
    // ---- exact layer
    let ex_n = t.pick(200, 1024);
    let mut work: Vec<(usize, FftDirection, bool)> = Vec::new();
    for n in (0..=ex_n).rev() {
        for d in DIRS {
            work.push((n, d, true));
        }
    }
    let ex_pool = lens::thin(&lens::pool(ex_n, t.pick(4096, 16384)), t.pick(24, 160));
    for (n, _) in &ex_pool {
        for d in DIRS {
            work.insert(0, (*n, d, false));
        }
    }
    let seed = ctx.seed;
    let parts = par_map(&work, |_, &(n, d, full)| {
        let mut r = Report::new();
        exact_planned("C01", n, d, full, if full { 1 } else { 2 }, seed, &Entry::ALL, &mut r);
        r
    });
    let mut ex = Report::new();
    for p in parts.into_iter().rev() {
        ex.merge(p);
    }
    let ex_states = ex.states;
    rep.merge(ex);
    rep.set("exact_layer_instances", ex_states);
    rep.set("exact_layer_max_dense_n", ex_n);
    rep.set("float_layer_dense_max_n", dense_n);
    rep.set("pool_lengths_float", Json::Arr(pool_sel.iter().map(|x| Json::Int(x.0 as i64)).collect()));
    rep.set("pool_lengths_exact", Json::Arr(ex_pool.iter().map(|x| Json::Int(x.0 as i64)).collect()));
    rep.rule = format!(
        "float layer: planners {{auto,scalar,sse,avx}} x {{f32,f64}} x {{fwd,inv}} x 4 entry points x every n in 0..={dn} with the complete real basis (2n impulses) and the STRUCT alphabet, plus {pc} computed pool lengths up to {ph} with 22 impulse positions x2 and closed-form STRUCT members, plus EVERY prime up to {pp} (planners scalar/sse/avx, 22 impulse positions x2), plus one length of every plan class just above 2^16 and up to ~2^20 (listed under lengths_beyond_2^16; closed-form STRUCT members and 22 impulse positions x2), plus the huge_lengths (5*2^18 ... 2^22 / 2^23, 3^13, 5^9, 2*3^13: 9 and more radix-4 layers, tables above 2^20 entries, every residue mod 4; three planners, in-place and immutable entry, impulses e_0, e_1, e_(n/2+1), ones, alternating against directly evaluated spectra); oracle: relative L2 error against a double-double naive DFT <= {tm}*16*eps*log2(2n). exact layer: FftPlanner::<Fp> (prime field, two primes) x {{fwd,inv}} x 4 entry points x every n in 0..={en} with the complete basis, zero vector and a dense vector, plus pool lengths with stratified impulses; oracle: equality in F_p, no data*data product, no poison. A case is non-trivial if n >= 2 and the input is non-zero; distinct = distinct (config, n, entry, input) tuples.",
        dn = dense_n,
        pc = pool_sel.len(),
        ph = t.pick(1 << 16, 1 << 20),
        pp = prime_hi,
        tm = TOL_MULT,
        en = ex_n
    );
    rep.exhaustive = true;
    rep.assumptions = vec![
        "float layer: SIMD code is data-oblivious and linear (basis => all inputs); backed by dense vectors, not monitored".into(),
        "exact layer: a wrong matrix entry survives only if a fixed non-zero algebraic number vanishes modulo both primes".into(),
        "lengths beyond the stated bounds are not covered".into(),
    ];
    finalize(ctx, rep)
}

fn replay(ctx: &Ctx, r: &Json) -> i32 {
    let key = r.get("key").and_then(|k| k.as_str()).unwrap_or("").to_string();
    let m = parse_key(&key);
    let mut rep = Report::new();
    for round in 0..2 {
        let res: Result<Option<String>, String> = if m.get("layer").map(|s| s.as_str()) == Some("exact") {
            let n: usize = m.get("n").and_then(|s| s.parse().ok()).unwrap_or(0);
            let d = parse_dir(m.get("dir").map(|s| s.as_str()).unwrap_or("fwd")).unwrap();
            let mut rr = Report::new();
            exact_planned("C01", n, d, true, 1, ctx.seed, &Entry::ALL, &mut rr);
            Ok(rr.violations.first().map(|v| v.what.clone()))
        } else {
            floatlayer::replay(&key, ctx.seed, TOL_MULT, QUAD_MAX)
        };
        match res {
            Ok(Some(what)) => {
                println!("replay round {}: reproduces: {}", round, what);
                if round == 1 {
                    rep.violate(key.clone(), what, Json::Null);
                }
            }
            Ok(None) => {
                println!("replay round {}: does not reproduce", round);
            }
            Err(e) => {
                eprintln!("replay failed: {}", e);
                return 2;
            }
        }
    }
    rep.evaluations = 2;
    rep.distinct_nontrivial = 2;
    rep.rule = "replay of one recorded case, run twice".into();
    rep.sample(Json::Str(key));
    std::env::set_var("VERIF_EVIDENCE_PART", "replay");
    finalize(ctx, rep)
}
