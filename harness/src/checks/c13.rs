//! C13: correct under every SIMD capability level and feature-flag combination.
//! This binary is one of four feature builds (see ./check); inside it the four CPU levels are emulated
//! by masking the results of run-time feature detection (hook H3).
use crate::checks::c04::construct_one;
use crate::core::*;
use crate::floatlayer::{self, FloatCfg};
use crate::framework::{finalize, Ctx, Report};
use crate::lens;
use crate::memcheck::{self, Mode};
use crate::util::{par_map, Json};
use rustfft::verif_hooks as vh;
use rustfft::{FftNum, FftPlanner, FftPlannerAvx, FftPlannerSse};

pub const MASKS: [(&str, u32); 4] = [
    ("avx2+fma", vh::FEAT_SSE41 | vh::FEAT_AVX | vh::FEAT_FMA | vh::FEAT_AVX2),
    ("avx+fma", vh::FEAT_SSE41 | vh::FEAT_AVX | vh::FEAT_FMA),
    ("sse4.1", vh::FEAT_SSE41),
    ("none", 0),
];

fn features() -> (bool, bool, &'static str) {
    let avx = cfg!(feature = "avx");
    let sse = cfg!(feature = "sse");
    (avx, sse, match (avx, sse) {
        (true, true) => "avx+sse",
        (true, false) => "avx",
        (false, true) => "sse",
        (false, false) => "none",
    })
}

/// the documented behaviour of the constructors as a function of (cargo features, detected CPU features, T)
fn planner_model(mask: u32, simd_type: bool) -> (bool, bool, &'static str) {
    let (favx, fsse, _) = features();
    let avx_ok = favx && simd_type && mask & vh::FEAT_AVX != 0 && mask & vh::FEAT_FMA != 0;
    let sse_ok = fsse && simd_type && mask & vh::FEAT_SSE41 != 0;
    let kind = if avx_ok {
        "avx"
    } else if sse_ok {
        "sse"
    } else {
        "scalar"
    };
    (avx_ok, sse_ok, kind)
}

fn constructors<T: FftNum>(ty: &str, simd_type: bool, mname: &str, mask: u32, rep: &mut Report) {
    let (_, _, fname) = features();
    let (avx_ok, sse_ok, kind) = planner_model(mask, simd_type);
    let avx = std::panic::catch_unwind(|| FftPlannerAvx::<T>::new().is_ok());
    let sse = std::panic::catch_unwind(|| FftPlannerSse::<T>::new().is_ok());
    let auto = std::panic::catch_unwind(|| FftPlanner::<T>::new().verif_kind());
    rep.evaluations += 3;
    rep.transitions += 3;
    rep.distinct_nontrivial += 3;
    let key = |p: &str| format!("C13|part=constructors|features={}|mask={}|T={}|planner={}", fname, mname, ty, p);
    for (p, got, want) in [("avx", avx, avx_ok), ("sse", sse, sse_ok)] {
        match got {
            Ok(g) if g == want => {}
            Ok(g) => rep.violate(key(p), format!("{} planner: new() is {} but the instruction set is {} (features={}, cpu level={}, T={})", p, if g { "Ok" } else { "Err" }, if want { "available" } else { "unavailable or compiled out" }, fname, mname, ty), Json::Null),
            Err(e) => rep.violate(key(p), format!("{} planner constructor panicked: {}", p, panic_text(&e)), Json::Null),
        }
    }
    match auto {
        Ok(k) if k == kind => {}
        Ok(k) => rep.violate(key("auto"), format!("automatic planner chose '{}' where '{}' is the best available back-end (features={}, cpu level={}, T={})", k, kind, fname, mname, ty), Json::Null),
        Err(e) => rep.violate(key("auto"), format!("FftPlanner::new() panicked: {}", panic_text(&e)), Json::Null),
    }
}

pub fn run(ctx: &Ctx) -> i32 {
    let t = ctx.tier;
    let (_, _, fname) = features();
    let mut rep = Report::new();
    if let Some(r) = &ctx.replay {
        let key = r.get("key").and_then(|k| k.as_str()).unwrap_or("").to_string();
        let m = crate::framework::parse_key(&key);
        let mname = m.get("mask").cloned().unwrap_or_default();
        let mask = MASKS.iter().find(|x| x.0 == mname).map(|x| x.1).or_else(|| m.get("maskbits").and_then(|s| s.parse().ok())).unwrap_or(u32::MAX);
        std::env::set_var("VERIF_EVIDENCE_PART", "replay");
        if key.starts_with("C03|") {
            std::env::set_var("VERIF_MEM_DENSE", "1");
            let mut r2 = memcheck::run_parent(Mode::C03, ctx);
            r2.rule = "replay".into();
            return finalize(ctx, r2);
        }
        vh::set_feature_mask(mask);
        for round in 0..2 {
            let mut r1 = Report::new();
            match m.get("part").map(|s| s.as_str()) {
                Some("constructors") => {
                    constructors::<f32>("f32", true, &mname, mask, &mut r1);
                    constructors::<f64>("f64", true, &mname, mask, &mut r1);
                    constructors::<crate::elem::W32>("W32", false, &mname, mask, &mut r1);
                }
                Some("C04") => {
                    let n: usize = m.get("n").and_then(|s| s.parse().ok()).unwrap_or(0);
                    construct_one::<f32>(n, &PK::ALL, &mut r1, "");
                    construct_one::<f64>(n, &PK::ALL, &mut r1, "");
                }
                _ => {
                    // float-layer key: strip our suffix fields, the float layer ignores unknown ones
                    match floatlayer::replay(&key, ctx.seed, 1.0, 1024) {
                        Ok(Some(w)) => r1.violate(key.clone(), w, Json::Null),
                        Ok(None) => {}
                        Err(e) => {
                            eprintln!("replay failed: {}", e);
                            return 2;
                        }
                    }
                }
            }
            println!("replay round {}: {}", round, if r1.violations.is_empty() { "does not reproduce".to_string() } else { format!("reproduces: {}", r1.violations[0].what) });
            rep = r1;
        }
        vh::set_feature_mask(u32::MAX);
        rep.evaluations = rep.evaluations.max(2);
        rep.distinct_nontrivial = rep.distinct_nontrivial.max(2);
        rep.rule = "replay of one recorded case under its feature build and CPU mask, run twice".into();
        rep.sample(Json::Str(key));
        return finalize(ctx, rep);
    }
    let dense_n = t.pick(96, 512);
    let pool = lens::thin(&lens::pool(dense_n, 1 << 13), t.pick(20, 120));
    let mut kinds = Vec::new();
    for (mname, mask) in MASKS {
        vh::set_feature_mask(mask);
        let extra = format!("|features={}|mask={}", fname, mname);
        // (1) constructors against the model
        constructors::<f32>("f32", true, mname, mask, &mut rep);
        constructors::<f64>("f64", true, mname, mask, &mut rep);
        constructors::<crate::elem::W32>("W32", false, mname, mask, &mut rep);
        kinds.push(Json::obj().with("mask", mname).with("auto_kind_f32", FftPlanner::<f32>::new().verif_kind()).with("model", planner_model(mask, true).2));
        // (2) C01 + C02 under this configuration
        let mut l = lens::dense(dense_n);
        l.extend(pool.iter().map(|x| x.0));
        // a few lengths beyond 2^16 under every configuration (the no-AVX2 level wraps the portable Rader's algorithm
        // inside AVX plans; 16-bit index arithmetic only shows up there)
        let big: Vec<usize> = lens::beyond_u16(false).iter().map(|x| x.0).filter(|&n| n < t.pick(65_540, 200_000)).collect();
        let cfg = FloatCfg {
            prop: "C13",
            planners: PK::ALL.to_vec(),
            entries: Entry::ALL.to_vec(),
            lens: l.clone(),
            full_basis_max: t.pick(64, 256),
            quad_max: dense_n,
            use_basis: true,
            use_struct: true,
            tol_mult: 1.0,
            f32_on: true,
            f64_on: true,
            seed: ctx.seed,
            key_extra: extra.clone(),
        };
        let mut fr = floatlayer::run(&cfg);
        fr.notes.clear();
        rep.merge(fr);
        let cfg_big = FloatCfg { planners: PK::DISTINCT.to_vec(), entries: vec![Entry::InPlace, Entry::Immut], lens: big.clone(), full_basis_max: 0, quad_max: 0, ..cfg.clone() };
        let mut fb = floatlayer::run(&cfg_big);
        fb.notes.clear();
        rep.merge(fb);
        // (3) C04 under this configuration
        let mut l4: Vec<usize> = (0..=t.pick(1024, 8192)).collect();
        l4.extend(pool.iter().map(|x| x.0));
        l4.reverse();
        let ex = extra.clone();
        let parts = par_map(&l4, |_, &n| {
            let mut r = Report::new();
            let x = format!("|part=C04{}", ex);
            construct_one::<f32>(n, &PK::ALL, &mut r, &x);
            construct_one::<f64>(n, &PK::ALL, &mut r, &x);
            r
        });
        for p in parts.into_iter().rev() {
            // re-key C04 violations as C13
            let mut p = p;
            for v in p.violations.iter_mut() {
                v.key = v.key.replacen("C04|", "C13|", 1);
            }
            rep.merge(p);
        }
        // (4) C03 under this configuration (guard pages, worker processes inherit the mask through the environment)
        std::env::set_var("VERIF_FEATURE_MASK", mask.to_string());
        std::env::set_var("VERIF_MEM_DENSE", t.pick(96, 384).to_string());
        let mut mr = memcheck::run_parent(Mode::C03, ctx);
        std::env::remove_var("VERIF_FEATURE_MASK");
        std::env::remove_var("VERIF_MEM_DENSE");
        for v in mr.violations.iter_mut() {
            v.key = format!("{}|features={}|mask={}", v.key, fname, mname);
        }
        rep.merge(mr);
        vh::set_feature_mask(u32::MAX);
    }
    rep.set("configurations", Json::Arr(kinds));
    rep.set("cargo_features", fname);
    rep.sample(Json::Str(format!("C13|part=constructors|features={}|mask=avx+fma|T=f32|planner=avx", fname)));
    rep.sample(Json::Str(format!("C13|pk=auto|T=f64|dir=fwd|n=148|entry=immut|in=impulse:re:74|features={}|mask=avx+fma", fname)));
    rep.rule = format!(
        "feature build '{f}' x emulated CPU levels {{avx2+fma, avx+fma (no avx2), sse4.1 only, none}} x {{f32, f64, W32}}: FftPlannerAvx/Sse::new() Ok/Err against the model (Err exactly when the instruction set is unavailable or compiled out or T is not f32/f64), FftPlanner::new() constructs and picks the best back-end; then under each level the C01/C02 float sweep (planners available, 2 types, 2 directions, 4 entry points, every n in 0..={dn} with the impulse basis and the STRUCT alphabet, + {pc} pool lengths), the C04 construction sweep (n in 0..={c4}) and the C03 guard-page sweep. Lower CPU levels are emulated by masking feature detection, which only removes capabilities this CPU has.",
        f = fname,
        dn = dense_n,
        pc = pool.len(),
        c4 = t.pick(1024, 8192)
    );
    rep.exhaustive = true;
    rep.assumptions = vec!["masking detection results is a faithful emulation of a lesser CPU because every SIMD path is selected through is_x86_feature_detected! (two assert-only uses of the std macro in sse_prime_butterflies.rs are unaffected)".into()];
    finalize(ctx, rep)
}
