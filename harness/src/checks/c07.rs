//! C07: a buffer of k*n elements is processed as k independent length-n transforms.
use crate::core::*;
use crate::exact::{self, Table};
use crate::fp::{self, Fp, TAG_POISON};
use crate::framework::{finalize, parse_key, Ctx, Report};
use crate::lens;
use crate::util::{par_map, Json, Rng};
use rustfft::{Fft, FftDirection, FftPlanner};
use std::sync::Arc;

const KMAX: usize = 8;

fn key(pk: PK, ty: &str, d: FftDirection, n: usize, e: Entry, k: usize, p: usize, fill: &str, clause: &str) -> String {
    format!("C07|pk={}|T={}|dir={}|n={}|entry={}|k={}|pos={}|fill={}|clause={}", pk.name(), ty, dir_name(d), n, e.name(), k, p, fill, clause)
}

fn fills<T: Real>() -> Vec<(&'static str, C<T>)> {
    vec![
        ("denseB", C::new(T::from64(0.0), T::from64(0.0))), // placeholder, replaced by a dense vector
        ("nan", C::new(T::from64(f64::NAN), T::from64(f64::NAN))),
        ("inf", C::new(T::from64(f64::INFINITY), T::from64(f64::NEG_INFINITY))),
        ("huge", C::new(T::from64(T::HUGE), T::from64(-T::HUGE))),
    ]
}

pub fn one_len<T: Real>(n: usize, planners: &[PK], ks: &[usize], rep: &mut Report, only: Option<(PK, FftDirection, Entry, usize)>) {
    if n == 0 {
        return;
    }
    let b = bound::<T>(n);
    let mut panics: Vec<(PK, FftDirection, String)> = Vec::new();
    let ffts = instances::<T>(n, planners, |pk, d, m| panics.push((pk, d, m)));
    for (pk, d, m) in panics {
        rep.violate(key(pk, T::NAME, d, n, Entry::Process, 0, 0, "-", "plan"), format!("planning panicked: {}", m), Json::Null);
    }
    let fl = fills::<T>();
    for (pk, d, f) in &ffts {
        rep.states += 1;
        for e in Entry::ALL {
            if let Some((opk, od, oe, _)) = only {
                if opk != *pk || od != *d || oe != e {
                    continue;
                }
            }
            // the chunks, and each of them transformed alone
            let chunks: Vec<Vec<C<T>>> = (0..KMAX).map(|i| dense_vec::<T>(n, 100 + i as u64)).collect();
            let alone: Vec<Option<Vec<C<T>>>> = chunks.iter().map(|c| call_plain(f.as_ref(), e, c).out).collect();
            for &k in ks {
                if let Some((_, _, _, ok)) = only {
                    if ok != k {
                        continue;
                    }
                }
                // baseline: all chunks dense and distinct
                let mut base: Vec<C<T>> = Vec::with_capacity(n * k);
                for c in chunks.iter().take(k) {
                    base.extend_from_slice(c);
                }
                let co = call_plain(f.as_ref(), e, &base);
                rep.evaluations += 1;
                rep.transitions += 1;
                let base_out = match co.out {
                    Some(o) => o,
                    None => {
                        rep.violate(key(*pk, T::NAME, *d, n, e, k, 0, "denseA", "completes"), format!("well-shaped {}-chunk call panicked: {}", k, co.panic_msg.unwrap_or_default()), Json::Null);
                        continue;
                    }
                };
                // (iii) chunking must not depend on how generous the scratch is: lengths between the advertised one and
                // the buffer size (a scratch that holds 2 .. k-1 chunks) give the same bits for every chunk
                if e != Entry::Process && k >= 2 {
                    let adv = e.scratch_len(f.as_ref());
                    let mut sls = vec![adv + n, 2 * n + 1, (k - 1) * n + 1, k * n - 1];
                    sls.retain(|&x| x > adv);
                    sls.sort();
                    sls.dedup();
                    let z = C::new(T::from64(0.0), T::from64(0.0));
                    for sl in sls {
                        let oi = if e.has_output() { vec![z; base.len()] } else { vec![] };
                        let co = call(f.as_ref(), e, &base, &oi, &vec![z; sl]);
                        rep.evaluations += 1;
                        rep.transitions += 1;
                        match co.out {
                            None => rep.violate(key(*pk, T::NAME, *d, n, e, k, 0, &format!("scratch_len={}", sl), "completes"), format!("{}-chunk call with scratch length {} (advertised {}) panicked: {}", k, sl, adv, co.panic_msg.unwrap_or_default()), Json::Null),
                            Some(o) => {
                                if !same_bits(&o, &base_out) {
                                    let first = o.iter().zip(&base_out).position(|(a, b)| a.re.bits() != b.re.bits() || a.im.bits() != b.im.bits()).unwrap_or(0);
                                    rep.violate(
                                        key(*pk, T::NAME, *d, n, e, k, first / n, &format!("scratch_len={}", sl), "same-as-exact-scratch"),
                                        format!("with a scratch of {} elements (advertised {}) chunk {} of {} is not transformed as with exactly the advertised scratch", sl, adv, first / n, k),
                                        Json::Null,
                                    );
                                }
                            }
                        }
                    }
                }
                for p in 0..k {
                    if n >= 2 {
                        rep.distinct_nontrivial += 1;
                    }
                    let got = &base_out[p * n..(p + 1) * n];
                    // (i) same as the chunk alone, up to rounding (the paired SIMD path may round differently)
                    match &alone[p] {
                        Some(a) => {
                            let dn = l2_diff(got, a);
                            let tol = 2.0 * b * l2(a) * (1.0 + b);
                            if !(dn <= tol) {
                                rep.violate(key(*pk, T::NAME, *d, n, e, k, p, "denseA", "same-as-alone"), format!("chunk {} of {} differs from the same chunk transformed alone by {:e} (allowance {:e})", p, k, dn, tol), Json::Null);
                            }
                        }
                        None => rep.violate(key(*pk, T::NAME, *d, n, e, k, p, "-", "alone"), "single-chunk call panicked".into(), Json::Null),
                    }
                    if k == 1 {
                        continue;
                    }
                    // (ii) bit-identical whatever the other chunks hold
                    for (fname, fval) in &fl {
                        let mut buf: Vec<C<T>> = Vec::with_capacity(n * k);
                        for q in 0..k {
                            if q == p {
                                buf.extend_from_slice(&chunks[p]);
                            } else if *fname == "denseB" {
                                buf.extend_from_slice(&dense_vec::<T>(n, 900 + q as u64));
                            } else {
                                buf.extend(std::iter::repeat(*fval).take(n));
                            }
                        }
                        let co = call_plain(f.as_ref(), e, &buf);
                        rep.evaluations += 1;
                        rep.transitions += 1;
                        match co.out {
                            None => rep.violate(key(*pk, T::NAME, *d, n, e, k, p, fname, "completes"), format!("well-shaped call panicked: {}", co.panic_msg.unwrap_or_default()), Json::Null),
                            Some(o) => {
                                let g = &o[p * n..(p + 1) * n];
                                if !finite(g) {
                                    rep.violate(key(*pk, T::NAME, *d, n, e, k, p, fname, "isolation"), format!("chunk {} of {} became non-finite when the other chunks hold {}", p, k, fname), Json::Null);
                                } else if !same_bits(g, got) {
                                    rep.violate(key(*pk, T::NAME, *d, n, e, k, p, fname, "isolation"), format!("chunk {} of {} changes bits when the other chunks hold {} instead of dense data", p, k, fname), Json::Null);
                                }
                            }
                        }
                    }
                }
            }
        }
    }
}

/// exact layer: chunk p holds data, every other chunk is poison-tagged
fn exact_len(n: usize, ks: &[usize], seed: u64, rep: &mut Report) {
    for d in DIRS {
        let builder = || -> Arc<dyn Fft<Fp>> { FftPlanner::<Fp>::new().plan_fft(n, d) };
        let k0 = format!("C07|layer=exact|pk=auto|T=Fp|dir={}|n={}", dir_name(d), n);
        let built = match exact::build_in_field(&builder, n, 0) {
            Err(m) => {
                rep.violate(k0, format!("planning panicked: {}", m), Json::Null);
                continue;
            }
            Ok(Err(_)) => continue,
            Ok(Ok(b)) => b,
        };
        if built.build_flags & (fp::FLAG_UNKNOWN_CONST | fp::FLAG_BINDING | fp::FLAG_BAD_LEN) != 0 {
            rep.notes.push(format!("exact layer undecided n={}: {}", n, fp::flag_names(built.build_flags)));
            continue;
        }
        rep.states += 1;
        let t = Table::new(&built.field, n);
        let p = built.field.p;
        let mut rng = Rng::new(seed ^ (n as u64) << 3);
        for &k in ks {
            for pos in 0..k {
                let x: Vec<(u64, u64)> = (0..n).map(|_| (rng.next() % p, rng.next() % p)).collect();
                let want = t.dft(&x, d);
                let mut data: Vec<C<Fp>> = Vec::with_capacity(n * k);
                for q in 0..k {
                    if q == pos {
                        data.extend(x.iter().map(|&(a, b)| C::new(Fp::data(a), Fp::data(b))));
                    } else {
                        data.extend((0..n).map(|_| C::new(Fp::poison(rng.next() % p), Fp::poison(rng.next() % p))));
                    }
                }
                for e in Entry::ALL {
                    let out_init = if e.has_output() { exact::poison_vec(data.len(), 3) } else { vec![] };
                    let scr = if e == Entry::Process { vec![] } else { exact::poison_vec(e.scratch_len(built.fft.as_ref()), 4) };
                    let co = call(built.fft.as_ref(), e, &data, &out_init, &scr);
                    rep.evaluations += 1;
                    rep.transitions += 1;
                    if n >= 2 {
                        rep.distinct_nontrivial += 1;
                    }
                    let kk = format!("{}|entry={}|k={}|pos={}", k0, e.name(), k, pos);
                    match co.out {
                        None => rep.violate(kk, format!("well-shaped call panicked: {}", co.panic_msg.unwrap_or_default()), Json::Null),
                        Some(o) => {
                            let g = &o[pos * n..(pos + 1) * n];
                            if g.iter().any(|c| c.re.tag == TAG_POISON || c.im.tag == TAG_POISON) {
                                rep.violate(kk, format!("content of a neighbouring chunk (or of stale scratch/output) reached chunk {} of {}", pos, k), Json::Null);
                            } else if g.iter().zip(&want).any(|(c, w)| (c.re.v, c.im.v) != *w) {
                                rep.violate(kk, format!("chunk {} of {} is not the exact DFT of its own data in F_p", pos, k), Json::Null);
                            }
                        }
                    }
                }
            }
        }
        fp::take_flags();
    }
}

pub fn run(ctx: &Ctx) -> i32 {
    let t = ctx.tier;
    let ks: Vec<usize> = (1..=KMAX).collect();
    if let Some(r) = &ctx.replay {
        let k = r.get("key").and_then(|k| k.as_str()).unwrap_or("").to_string();
        let m = parse_key(&k);
        let n: usize = m.get("n").and_then(|s| s.parse().ok()).unwrap_or(1);
        let mut rep = Report::new();
        for _ in 0..2 {
            let mut r1 = Report::new();
            if m.get("layer").map(|s| s.as_str()) == Some("exact") {
                exact_len(n, &[2, 3, 5], ctx.seed, &mut r1);
            } else {
                let pk = PK::parse(m.get("pk").map(|s| s.as_str()).unwrap_or("auto")).unwrap_or(PK::Auto);
                let e = Entry::parse(m.get("entry").map(|s| s.as_str()).unwrap_or("process")).unwrap_or(Entry::Process);
                let d = parse_dir(m.get("dir").map(|s| s.as_str()).unwrap_or("fwd")).unwrap_or(FftDirection::Forward);
                let kk: usize = m.get("k").and_then(|s| s.parse().ok()).unwrap_or(2);
                if m.get("T").map(|s| s.as_str()) == Some("f32") {
                    one_len::<f32>(n, &[pk], &ks, &mut r1, Some((pk, d, e, kk)));
                } else {
                    one_len::<f64>(n, &[pk], &ks, &mut r1, Some((pk, d, e, kk)));
                }
            }
            println!("replay: {}", if r1.violations.is_empty() { "does not reproduce".to_string() } else { format!("reproduces: {}", r1.violations[0].what) });
            rep = r1;
        }
        rep.evaluations = rep.evaluations.max(2);
        rep.distinct_nontrivial = rep.distinct_nontrivial.max(2);
        rep.rule = "replay of one recorded case, run twice".into();
        rep.sample(Json::Str(k));
        std::env::set_var("VERIF_EVIDENCE_PART", "replay");
        return finalize(ctx, rep);
    }
    let dense_n = t.pick(200, 1024);
    let mut l = lens::dense(dense_n);
    let pool = lens::thin(&lens::pool(dense_n, t.pick(4096, 1 << 13)), t.pick(24, 120));
    l.extend(pool.iter().map(|x| x.0));
    l.reverse();
    let parts = par_map(&l, |_, &n| {
        let mut r = Report::new();
        one_len::<f32>(n, &PK::ALL, &ks, &mut r, None);
        one_len::<f64>(n, &PK::ALL, &ks, &mut r, None);
        r
    });
    let mut rep = Report::new();
    for p in parts.into_iter().rev() {
        rep.merge(p);
    }
    // hand-assembled composites (transforms no planner produces)
    let hand: Vec<usize> = HAND_LENS.to_vec();
    let hparts = par_map(&hand, |_, &n| {
        let mut r = Report::new();
        one_len::<f32>(n, &[PK::Hand], &ks, &mut r, None);
        one_len::<f64>(n, &[PK::Hand], &ks, &mut r, None);
        r
    });
    for p in hparts {
        rep.merge(p);
    }
    rep.set("handbuilt_lengths", Json::Arr(hand.iter().map(|x| Json::Int(*x as i64)).collect()));
    let ex_n = t.pick(64, 256);
    let ex: Vec<usize> = (1..=ex_n).rev().collect();
    let seed = ctx.seed;
    let parts = par_map(&ex, |_, &n| {
        let mut r = Report::new();
        exact_len(n, &[2, 3, 5], seed, &mut r);
        r
    });
    for p in parts.into_iter().rev() {
        rep.merge(p);
    }
    rep.sample(Json::Str(key(PK::Sse, "f32", FftDirection::Forward, 37, Entry::Immut, 5, 4, "nan", "isolation")));
    rep.sample(Json::Str(key(PK::Avx, "f64", FftDirection::Inverse, dense_n, Entry::InPlace, 8, 0, "denseA", "same-as-alone")));
    rep.set("pool_lengths", Json::Arr(pool.iter().map(|x| Json::Int(x.0 as i64)).collect()));
    rep.rule = format!(
        "planners x {{f32,f64}} x {{fwd,inv}} x every n in 1..={dn} (plus {pc} pool lengths up to {ph}) x 4 entry points x k in 1..=8 x every chunk position: (i) the chunk inside a buffer of k distinct dense chunks against the same chunk transformed alone, allowance 2B; (ii) the chunk's output bits against the 4 alternative fillings of all other chunks {{other dense data, NaN, +-Inf, +-huge}} -- must be bit-identical and finite. exact layer: FftPlanner::<Fp>, n in 1..={en}, k in {{2,3,5}}, every position, neighbours and scratch/output poison-tagged: the chunk equals its own DFT in F_p and carries no poison. Non-trivial: n >= 2; counted per (config, n, entry, k, position).",
        dn = dense_n,
        pc = pool.len(),
        ph = t.pick(4096, 1 << 13),
        en = ex_n
    );
    rep.exhaustive = true;
    rep.assumptions = vec!["'does not depend on' is decided bitwise: same instruction stream on the chunk's own data must give the same bits".into()];
    finalize(ctx, rep)
}
