//! C06: forward and inverse undo each other up to the factor n; inverse = conj . forward . conj; no scaling.
use crate::core::*;
use crate::exact;
use crate::fp::{self, Fp};
use crate::framework::{finalize, parse_key, Ctx, Report};
use crate::inputs;
use crate::lens;
use crate::refdft::norm2;
use crate::util::{mulmod, par_map, Json, Rng};
use rustfft::{Fft, FftDirection, FftPlanner};
use std::sync::Arc;

fn key(pk: PK, ty: &str, n: usize, order: &str, e: Entry, inp: &str, clause: &str) -> String {
    format!("C06|pk={}|T={}|n={}|order={}|entry={}|in={}|clause={}", pk.name(), ty, n, order, e.name(), inp, clause)
}

fn diff_norm(a: &[C<f64>], b: &[C<f64>]) -> f64 {
    let d: Vec<C<f64>> = a.iter().zip(b).map(|(x, y)| x - y).collect();
    norm2(&d)
}

pub fn one_len<T: Real>(n: usize, planners: &[PK], seed: u64, rep: &mut Report, only: Option<(&str, Entry, &str)>) {
    if n == 0 {
        return;
    }
    let b = bound::<T>(n);
    let nf = n as f64;
    let dynexp = if T::NAME == "f32" { 30 } else { 200 };
    let ins = inputs::cheap(n, seed, dynexp);
    for &pk in planners {
        for order in ["fwd-first", "inv-first"] {
            if let Some((o, _, _)) = only {
                if o != order {
                    continue;
                }
            }
            let mut pl = match AnyPlanner::<T>::new(pk) {
                Some(p) => p,
                None => continue,
            };
            let planned = std::panic::catch_unwind(std::panic::AssertUnwindSafe(|| {
                if order == "fwd-first" {
                    let f = pl.plan(n, FftDirection::Forward);
                    let i = pl.plan(n, FftDirection::Inverse);
                    (f, i)
                } else {
                    let i = pl.plan(n, FftDirection::Inverse);
                    let f = pl.plan(n, FftDirection::Forward);
                    (f, i)
                }
            }));
            let (fwd, inv) = match planned {
                Ok(x) => x,
                Err(e) => {
                    rep.violate(key(pk, T::NAME, n, order, Entry::Process, "-", "plan"), format!("planning panicked: {}", panic_text(&e)), Json::Null);
                    continue;
                }
            };
            rep.states += 2;
            for (name, x) in &ins {
                let x64 = inputs::round_to::<T>(x);
                let xt: Vec<C<T>> = from_c64(&x64);
                let xn = norm2(&x64);
                let xc: Vec<C<T>> = xt.iter().map(|c| c.conj()).collect();
                for e in Entry::ALL {
                    if let Some((_, oe, oin)) = only {
                        if oe != e || oin != name {
                            continue;
                        }
                    }
                    let run = |f: &Arc<dyn Fft<T>>, data: &[C<T>]| -> Result<Vec<C<T>>, String> {
                        let co = call_plain(f.as_ref(), e, data);
                        co.out.ok_or_else(|| co.panic_msg.unwrap_or_default())
                    };
                    let mut check = |rep: &mut Report, clause: &str, got: Result<Vec<C<f64>>, String>, want: &[C<f64>], tol: f64| {
                        rep.evaluations += 1;
                        rep.transitions += 1;
                        if n >= 2 {
                            rep.distinct_nontrivial += 1;
                        }
                        match got {
                            Err(m) => rep.violate(key(pk, T::NAME, n, order, e, name, clause), format!("well-shaped call panicked: {}", m), Json::Null),
                            Ok(g) => {
                                let d = diff_norm(&g, want);
                                let ratio = if tol > 0.0 { d / tol } else if d == 0.0 { 0.0 } else { f64::INFINITY };
                                let cur = rep.extra.get(&format!("worst_{}_{}", clause, T::NAME)).and_then(|j| j.get("ratio")).and_then(|r| if let Json::Num(f) = r { Some(*f) } else { None }).unwrap_or(0.0);
                                if ratio > cur && ratio.is_finite() {
                                    rep.extra.insert(format!("worst_{}_{}", clause, T::NAME), Json::obj().with("ratio", ratio).with("case", key(pk, T::NAME, n, order, e, name, clause)));
                                }
                                if !(ratio <= 1.0) {
                                    rep.violate(key(pk, T::NAME, n, order, e, name, clause), format!("{}: deviation {:e} exceeds the allowance {:e} derived from C02 (x{:.3})", clause, d, tol, ratio), Json::Null);
                                }
                            }
                        }
                    };
                    let nx: Vec<C<f64>> = x64.iter().map(|c| c * nf).collect();
                    let tol_rt = (2.0 * b + b * b) * nf * xn;
                    // inverse(forward(x)) = n x
                    let r1 = run(&fwd, &xt).and_then(|y| run(&inv, &y)).map(|z| to_c64(&z));
                    check(rep, "inv(fwd(x))=n*x", r1, &nx, tol_rt);
                    // forward(inverse(x)) = n x
                    let r2 = run(&inv, &xt).and_then(|y| run(&fwd, &y)).map(|z| to_c64(&z));
                    check(rep, "fwd(inv(x))=n*x", r2, &nx, tol_rt);
                    // inverse(x) = conj(forward(conj(x)))
                    let a = run(&inv, &xt).map(|z| to_c64(&z));
                    let bb = run(&fwd, &xc).map(|z| to_c64(&z.iter().map(|c| c.conj()).collect::<Vec<_>>()));
                    match (a, bb) {
                        (Ok(a), Ok(bv)) => check(rep, "inv(x)=conj(fwd(conj(x)))", Ok(a), &bv, 2.0 * b * nf.sqrt() * xn),
                        (Err(m), _) | (_, Err(m)) => check(rep, "inv(x)=conj(fwd(conj(x)))", Err(m), &[], 0.0),
                    }
                }
            }
        }
    }
}

/// exact layer: one FftPlanner::<Fp>, both directions, both orders
fn exact_len(n: usize, seed: u64, rep: &mut Report) {
    if n == 0 {
        return;
    }
    for order in ["fwd-first", "inv-first"] {
        let builder = || -> (Arc<dyn Fft<Fp>>, Arc<dyn Fft<Fp>>) {
            let mut pl = FftPlanner::<Fp>::new();
            if order == "fwd-first" {
                let f = pl.plan_fft(n, FftDirection::Forward);
                let i = pl.plan_fft(n, FftDirection::Inverse);
                (f, i)
            } else {
                let i = pl.plan_fft(n, FftDirection::Inverse);
                let f = pl.plan_fft(n, FftDirection::Forward);
                (f, i)
            }
        };
        let k = format!("C06|layer=exact|pk=auto|T=Fp|n={}|order={}", n, order);
        let built = match exact::build_in_field_generic(&builder, &[n as u64], 0) {
            Err(m) => {
                rep.violate(k, format!("planning panicked: {}", m), Json::Null);
                continue;
            }
            Ok(Err(m)) => {
                rep.notes.push(format!("exact layer skipped n={}: {}", n, m));
                continue;
            }
            Ok(Ok(b)) => b,
        };
        if built.build_flags & (fp::FLAG_UNKNOWN_CONST | fp::FLAG_BINDING | fp::FLAG_BAD_LEN) != 0 {
            rep.notes.push(format!("exact layer undecided n={}: {}", n, fp::flag_names(built.build_flags)));
            continue;
        }
        let (fwd, inv) = built.obj;
        let p = built.field.p;
        rep.states += 2;
        let mut rng = Rng::new(seed ^ n as u64);
        let mut vectors: Vec<Vec<(u64, u64)>> = Vec::new();
        for j in 0..n {
            vectors.push(exact::impulse_vec(n, j, false));
            vectors.push(exact::impulse_vec(n, j, true));
        }
        vectors.push((0..n).map(|_| (rng.next() % p, rng.next() % p)).collect());
        let nn = n as u64 % p;
        for x in &vectors {
            let data: Vec<C<Fp>> = x.iter().map(|&(a, b)| C::new(Fp::data(a), Fp::data(b))).collect();
            for e in Entry::ALL {
                let run = |f: &Arc<dyn Fft<Fp>>, d: &[C<Fp>]| -> Option<Vec<C<Fp>>> {
                    let out_init = if e.has_output() { exact::poison_vec(d.len(), 5) } else { vec![] };
                    let scr = if e == Entry::Process { vec![] } else { exact::poison_vec(e.scratch_len(f.as_ref()), 9) };
                    call(f.as_ref(), e, d, &out_init, &scr).out
                };
                rep.evaluations += 3;
                rep.transitions += 3;
                if n >= 2 {
                    rep.distinct_nontrivial += 3;
                }
                let want: Vec<(u64, u64)> = x.iter().map(|&(a, b)| (mulmod(a, nn, p), mulmod(b, nn, p))).collect();
                let rt1 = run(&fwd, &data).and_then(|y| run(&inv, &y));
                let rt2 = run(&inv, &data).and_then(|y| run(&fwd, &y));
                for (nm, rt) in [("inv(fwd(x))=n*x", rt1), ("fwd(inv(x))=n*x", rt2)] {
                    match rt {
                        None => rep.violate(format!("{}|entry={}|clause={}", k, e.name(), nm), "well-shaped call panicked".into(), Json::Null),
                        Some(z) => {
                            if z.iter().zip(&want).any(|(c, w)| (c.re.v, c.im.v) != *w) {
                                rep.violate(format!("{}|entry={}|clause={}", k, e.name(), nm), format!("{} fails exactly in F_p (p={})", nm, p), Json::Null);
                            }
                        }
                    }
                }
                let conj_in: Vec<C<Fp>> = data.iter().map(|c| C::new(c.re, -c.im)).collect();
                match (run(&inv, &data), run(&fwd, &conj_in)) {
                    (Some(a), Some(bv)) => {
                        if a.iter().zip(&bv).any(|(u, v)| u.re.v != v.re.v || u.im.v != (-v.im).v) {
                            rep.violate(format!("{}|entry={}|clause=conj", k, e.name()), format!("inv(x) != conj(fwd(conj(x))) exactly in F_p (p={})", p), Json::Null);
                        }
                    }
                    _ => rep.violate(format!("{}|entry={}|clause=conj", k, e.name()), "well-shaped call panicked".into(), Json::Null),
                }
            }
        }
        let fl = fp::take_flags();
        if fl & (fp::FLAG_UNKNOWN_CONST | fp::FLAG_BINDING | fp::FLAG_BAD_LEN) != 0 {
            rep.notes.push(format!("exact layer undecided n={}: {}", n, fp::flag_names(fl)));
        }
    }
}

pub fn run(ctx: &Ctx) -> i32 {
    let t = ctx.tier;
    if let Some(r) = &ctx.replay {
        let k = r.get("key").and_then(|k| k.as_str()).unwrap_or("").to_string();
        let m = parse_key(&k);
        let n: usize = m.get("n").and_then(|s| s.parse().ok()).unwrap_or(1);
        let mut rep = Report::new();
        for _ in 0..2 {
            let mut r1 = Report::new();
            if m.get("layer").map(|s| s.as_str()) == Some("exact") {
                exact_len(n, ctx.seed, &mut r1);
            } else {
                let pk = PK::parse(m.get("pk").map(|s| s.as_str()).unwrap_or("auto")).unwrap_or(PK::Auto);
                let e = Entry::parse(m.get("entry").map(|s| s.as_str()).unwrap_or("process")).unwrap_or(Entry::Process);
                let order = m.get("order").cloned().unwrap_or_default();
                let inp = m.get("in").cloned().unwrap_or_default();
                if m.get("T").map(|s| s.as_str()) == Some("f32") {
                    one_len::<f32>(n, &[pk], ctx.seed, &mut r1, Some((&order, e, &inp)));
                } else {
                    one_len::<f64>(n, &[pk], ctx.seed, &mut r1, Some((&order, e, &inp)));
                }
            }
            println!("replay: {}", if r1.violations.is_empty() { "does not reproduce".to_string() } else { format!("reproduces: {}", r1.violations[0].what) });
            rep = r1;
        }
        rep.evaluations = rep.evaluations.max(2);
        rep.distinct_nontrivial = rep.distinct_nontrivial.max(2);
        rep.rule = "replay of one recorded case, run twice".into();
        rep.sample(Json::Str(k));
        std::env::set_var("VERIF_EVIDENCE_PART", "replay");
        return finalize(ctx, rep);
    }
    let dense_n = t.pick(1024, 8192);
    let mut l = lens::dense(dense_n);
    let pool = lens::thin(&lens::pool(dense_n, t.pick(1 << 18, 1 << 22)), t.pick(60, 500));
    l.extend(pool.iter().map(|x| x.0));
    for (b, _) in lens::beyond_u16(t == crate::framework::Tier::Thorough) {
        if !l.contains(&b) {
            l.push(b);
        }
    }
    l.sort();
    l.reverse();
    let seed = ctx.seed;
    let parts = par_map(&l, |_, &n| {
        let mut r = Report::new();
        // above the dense range `auto` is the same object as the best SIMD planner; keep the three distinct ones
        let pks: &[PK] = if n <= dense_n { &PK::ALL } else { &PK::DISTINCT };
        one_len::<f32>(n, pks, seed, &mut r, None);
        one_len::<f64>(n, pks, seed, &mut r, None);
        r
    });
    let mut rep = Report::new();
    for p in parts.into_iter().rev() {
        rep.merge(p);
    }
    let ex_n = t.pick(128, 512);
    let ex: Vec<usize> = (1..=ex_n).rev().collect();
    let parts = par_map(&ex, |_, &n| {
        let mut r = Report::new();
        exact_len(n, seed, &mut r);
        r
    });
    for p in parts.into_iter().rev() {
        rep.merge(p);
    }
    rep.sample(Json::Str(key(PK::Avx, "f32", 1184, "inv-first", Entry::Immut, "dense:uniform[-1,1]", "inv(fwd(x))=n*x")));
    rep.sample(Json::Str(key(PK::Scalar, "f64", dense_n, "fwd-first", Entry::OutOfPlace, "dynrange:2^+-200", "inv(x)=conj(fwd(conj(x)))")));
    rep.set("pool_lengths", Json::Arr(pool.iter().map(|x| Json::Int(x.0 as i64)).collect()));
    rep.set("exact_layer_max_n", ex_n);
    rep.rule = format!(
        "planners x {{f32,f64}} x every n in 1..={dn} (plus {pc} pool lengths up to {ph} and one length of every plan class just above 2^16 up to ~2^20) x both orders of requesting the two directions from ONE planner x 4 entry points x 6 inputs (dense uniform, impulse, ones, ramp, wide dynamic range, positive dense): inv(fwd(x)) and fwd(inv(x)) against n*x with allowance (2B+B^2)*n*||x||, inv(x) against conj(fwd(conj(x))) with allowance 2B*sqrt(n)*||x||, B = 16*eps*log2(2n); exact layer: FftPlanner::<Fp>, every n in 1..={en}, both orders, 4 entry points, complete basis + a dense vector, the three identities as equalities in F_p. Non-trivial: n >= 2.",
        dn = dense_n,
        pc = pool.len(),
        ph = t.pick(1 << 18, 1 << 22),
        en = ex_n
    );
    rep.exhaustive = true;
    rep.assumptions = vec!["allowances are derived from C02 applied twice, never stricter than the properties themselves".into(), "oracle-free: no reference DFT is involved in the float clauses".into()];
    finalize(ctx, rep)
}
