//! Engine C: a stateless schedule explorer (iterative preemption bounding, after CHESS).
//! Threads are OS threads serialised by a baton, so an execution is a deterministic function of its choice list.
//! Scheduling points are injected by `yield_point` (called from the `Yld` element type on every arithmetic
//! operation, and from hook H2 before every chunk closure inside the library).
use std::cell::RefCell;
use std::sync::{Arc, Condvar, Mutex};

#[derive(Clone, Copy, Debug, PartialEq, Eq)]
pub enum Kind {
    Start,
    Yield,
    Finish,
}
#[derive(Clone, Debug)]
pub struct Point {
    pub kind: Kind,
    /// thread that was running (usize::MAX at Start)
    pub running: usize,
    /// number of alternatives at this point (canonical order: running thread first if still enabled, then ascending ids)
    pub enabled: usize,
    pub chosen: usize,
}

struct Inner {
    current: usize, // thread holding the baton; usize::MAX = nobody yet
    finished: Vec<bool>,
    prefix: Vec<usize>,
    points: Vec<Point>,
    per_thread_points: Vec<usize>,
    error: Option<String>,
}
pub struct Sched {
    inner: Mutex<Inner>,
    cv: Vec<Condvar>,
    n: usize,
}

thread_local! {
    static ME: RefCell<Option<(Arc<Sched>, usize)>> = RefCell::new(None);
}

/// Called from instrumented code. No-op on threads that are not under a scheduler.
#[inline]
pub fn yield_point(_site: u32) {
    // the Arc in ME keeps the scheduler alive for as long as this thread is registered
    let me: Option<(*const Sched, usize)> = ME.with(|m| m.borrow().as_ref().map(|(s, id)| (Arc::as_ptr(s), *id)));
    if let Some((s, id)) = me {
        unsafe { (*s).yield_from(id) };
    }
}
/// adapter with the signature hook H2 wants
pub fn h2_hook(site: u32) {
    yield_point(site);
}

impl Sched {
    fn choices(inner: &Inner, running: Option<usize>) -> Vec<usize> {
        let mut v = Vec::new();
        if let Some(r) = running {
            if !inner.finished[r] {
                v.push(r);
            }
        }
        for t in 0..inner.finished.len() {
            if !inner.finished[t] && Some(t) != running {
                v.push(t);
            }
        }
        v
    }
    /// take one scheduling decision (lock held)
    fn decide(inner: &mut Inner, kind: Kind, running: Option<usize>) -> Option<usize> {
        let ch = Self::choices(inner, running);
        if ch.is_empty() {
            return None;
        }
        let idx = inner.points.len();
        let pick = if idx < inner.prefix.len() {
            let p = inner.prefix[idx];
            if p >= ch.len() {
                inner.error = Some(format!("replay diverged: choice {} out of range ({} enabled) at point {}", p, ch.len(), idx));
                0
            } else {
                p
            }
        } else {
            0
        };
        inner.points.push(Point { kind, running: running.unwrap_or(usize::MAX), enabled: ch.len(), chosen: pick });
        Some(ch[pick])
    }
    fn yield_from(&self, id: usize) {
        let mut g = self.inner.lock().unwrap();
        g.per_thread_points[id] += 1;
        let next = Self::decide(&mut g, Kind::Yield, Some(id)).unwrap_or(id);
        if next != id {
            g.current = next;
            self.cv[next].notify_one();
            while g.current != id {
                g = self.cv[id].wait(g).unwrap();
            }
        }
    }
    fn finish(&self, id: usize) {
        let mut g = self.inner.lock().unwrap();
        g.finished[id] = true;
        if let Some(next) = Self::decide(&mut g, Kind::Finish, Some(id)) {
            g.current = next;
            self.cv[next].notify_one();
        } else {
            g.current = usize::MAX - 1; // all done
        }
    }
    fn wait_turn(&self, id: usize) {
        let mut g = self.inner.lock().unwrap();
        while g.current != id {
            g = self.cv[id].wait(g).unwrap();
        }
    }
}

pub struct Execution {
    pub points: Vec<Point>,
    pub per_thread_points: Vec<usize>,
    pub error: Option<String>,
    pub panicked: Vec<Option<String>>,
}
impl Execution {
    pub fn choices(&self) -> Vec<usize> {
        self.points.iter().map(|p| p.chosen).collect()
    }
}

type Job = Box<dyn FnOnce() -> Option<String> + Send + 'static>;
/// Persistent worker threads (one per harness thread): spawning OS threads per execution dominated the cost.
pub struct Pool {
    tx: Vec<std::sync::mpsc::Sender<Job>>,
    rx_done: std::sync::mpsc::Receiver<(usize, Option<String>)>,
    handles: Vec<std::thread::JoinHandle<()>>,
}
impl Pool {
    pub fn new(n: usize) -> Pool {
        let (tx_done, rx_done) = std::sync::mpsc::channel::<(usize, Option<String>)>();
        let mut tx = Vec::new();
        let mut handles = Vec::new();
        for id in 0..n {
            let (t, r) = std::sync::mpsc::channel::<Job>();
            let td = tx_done.clone();
            tx.push(t);
            handles.push(std::thread::spawn(move || {
                while let Ok(job) = r.recv() {
                    let res = job();
                    if td.send((id, res)).is_err() {
                        break;
                    }
                }
            }));
        }
        Pool { tx, rx_done, handles }
    }
}
impl Drop for Pool {
    fn drop(&mut self) {
        self.tx.clear();
        for h in self.handles.drain(..) {
            let _ = h.join();
        }
    }
}

/// Run the thread bodies once under the schedule given by `prefix` (then default choices).
pub fn run_once(pool: &Pool, prefix: &[usize], bodies: Vec<Box<dyn FnOnce() + Send + 'static>>) -> Execution {
    let n = bodies.len();
    assert!(n == pool.tx.len());
    let sched = Arc::new(Sched {
        inner: Mutex::new(Inner { current: usize::MAX, finished: vec![false; n], prefix: prefix.to_vec(), points: Vec::new(), per_thread_points: vec![0; n], error: None }),
        cv: (0..n).map(|_| Condvar::new()).collect(),
        n,
    });
    let mut panicked: Vec<Option<String>> = vec![None; n];
    for (id, body) in bodies.into_iter().enumerate() {
        let sc = Arc::clone(&sched);
        let job: Job = Box::new(move || {
            ME.with(|m| *m.borrow_mut() = Some((Arc::clone(&sc), id)));
            sc.wait_turn(id);
            let r = std::panic::catch_unwind(std::panic::AssertUnwindSafe(body));
            ME.with(|m| *m.borrow_mut() = None);
            sc.finish(id);
            r.err().map(|e| crate::core::panic_text(&e))
        });
        pool.tx[id].send(job).expect("worker thread gone");
    }
    // initial decision
    {
        let mut g = sched.inner.lock().unwrap();
        if let Some(first) = Sched::decide(&mut g, Kind::Start, None) {
            g.current = first;
            sched.cv[first].notify_one();
        }
    }
    for _ in 0..n {
        let (id, p) = pool.rx_done.recv().expect("worker thread gone");
        panicked[id] = p;
    }
    let _ = sched.n;
    let g = sched.inner.lock().unwrap();
    Execution { points: g.points.clone(), per_thread_points: g.per_thread_points.clone(), error: g.error.clone(), panicked }
}

pub struct ExploreResult {
    pub executions: u64,
    /// largest preemption bound whose space was enumerated completely
    pub completed_bound: Option<u32>,
    pub executions_per_bound: Vec<u64>,
    pub points_total: usize,
    pub per_thread_points: Vec<usize>,
    /// first failing schedule (choice list) and message
    pub failure: Option<(Vec<usize>, String)>,
    pub machinery_error: Option<String>,
    pub distinct_outcomes: usize,
    pub budget_hit: bool,
    /// the number of scheduling points per thread differed between executions
    pub points_vary: bool,
    /// (bound, estimated schedules) of the first bound that was not attempted because it would not fit the budget
    pub skipped_bound_estimate: Option<(u32, u64)>,
}

/// Iterative context bounding. `make` builds fresh thread bodies for one execution; `check` judges the execution
/// (it is called after all threads have finished) and returns an outcome fingerprint or an error text.
pub fn explore(
    pool: &Pool,
    max_bound: u32,
    max_executions: u64,
    make: &dyn Fn() -> Vec<Box<dyn FnOnce() + Send + 'static>>,
    check: &dyn Fn(&Execution) -> Result<u64, String>,
) -> ExploreResult {
    let mut res = ExploreResult { executions: 0, completed_bound: None, executions_per_bound: Vec::new(), points_total: 0, per_thread_points: Vec::new(), failure: None, machinery_error: None, distinct_outcomes: 0, budget_hit: false, points_vary: false, skipped_bound_estimate: None };
    let mut outcomes = std::collections::BTreeSet::new();
    for bound in 0..=max_bound {
        let before = res.executions;
        // do not start a bound that cannot be completed within the budget: roughly sum_{i<=b} C(P,i) (threads-1)^i schedules
        if bound >= 1 && res.points_total > 0 {
            let p = res.points_total as f64;
            let alt = (res.per_thread_points.len().max(2) - 1) as f64;
            let mut est = 0.0;
            let mut term = 1.0;
            for i in 1..=bound {
                term = term * (p - (i as f64 - 1.0)).max(1.0) / i as f64 * alt;
                est += term;
            }
            if est > (max_executions.saturating_sub(res.executions)) as f64 {
                res.skipped_bound_estimate = Some((bound, est as u64));
                break;
            }
        }
        let mut stack: Vec<Vec<usize>> = vec![Vec::new()];
        let mut complete = true;
        while let Some(prefix) = stack.pop() {
            if res.executions >= max_executions {
                complete = false;
                res.budget_hit = true;
                break;
            }
            let x = run_once(pool, &prefix, make());
            res.executions += 1;
            if let Some(e) = &x.error {
                res.machinery_error = Some(e.clone());
                return res;
            }
            if res.per_thread_points.is_empty() {
                res.per_thread_points = x.per_thread_points.clone();
                res.points_total = x.points.len();
            } else if res.per_thread_points != x.per_thread_points {
                // who executes how many points depends on the schedule (e.g. lazily initialised state): not an error
                // in itself -- the oracle decides -- but worth reporting
                res.points_vary = true;
            }
            match check(&x) {
                Ok(fp) => {
                    outcomes.insert(fp);
                }
                Err(msg) => {
                    res.failure = Some((x.choices(), msg));
                    res.distinct_outcomes = outcomes.len() + 1;
                    return res;
                }
            }
            // children: deviate at every later point within the preemption budget
            let choices = x.choices();
            let mut used = 0u32;
            for (i, p) in x.points.iter().enumerate() {
                if i >= prefix.len() {
                    for alt in 1..p.enabled {
                        let cost = if p.kind == Kind::Yield { 1 } else { 0 };
                        if used + cost <= bound {
                            let mut np = choices[..i].to_vec();
                            np.push(alt);
                            stack.push(np);
                        }
                    }
                }
                if p.kind == Kind::Yield && p.chosen != 0 {
                    used += 1;
                }
            }
        }
        res.executions_per_bound.push(res.executions - before);
        if complete {
            res.completed_bound = Some(bound);
        } else {
            break;
        }
    }
    res.distinct_outcomes = outcomes.len();
    res
}

fn multinomial(parts: &[u64]) -> u64 {
    // product of binomials, exact for the small numbers used in the self-check
    let mut total = 0u64;
    let mut r = 1u64;
    for &p in parts {
        for i in 1..=p {
            total += 1;
            r = r * total / i;
        }
    }
    r
}

/// Explorer self-check: with the bound lifted, the number of complete schedules must equal the multinomial coefficient.
pub fn self_check() -> Result<(), String> {
    for ys in [vec![2usize, 1], vec![2, 1, 2], vec![0, 3], vec![3, 3]] {
        let ys2 = ys.clone();
        let make = move || -> Vec<Box<dyn FnOnce() + Send>> {
            ys2.iter()
                .map(|&y| {
                    Box::new(move || {
                        for _ in 0..y {
                            yield_point(0);
                        }
                    }) as Box<dyn FnOnce() + Send>
                })
                .collect()
        };
        let pool = Pool::new(ys.len());
        let r = explore(&pool, 64, 1_000_000, &make, &|_| Ok(0));
        if r.machinery_error.is_some() || r.failure.is_some() {
            return Err(format!("explorer self-check failed: {:?} {:?}", r.machinery_error, r.failure));
        }
        let segs: Vec<u64> = ys.iter().map(|&y| y as u64 + 1).collect();
        let want = multinomial(&segs);
        let got = *r.executions_per_bound.last().unwrap();
        if got != want {
            return Err(format!("explorer self-check: {:?} yields -> {} schedules, expected multinomial {}", ys, got, want));
        }
    }
    // a lost update must be found at preemption bound 1 and not at bound 0
    let cell = std::sync::Arc::new(std::sync::atomic::AtomicU64::new(0));
    let c2 = cell.clone();
    let make = move || -> Vec<Box<dyn FnOnce() + Send>> {
        c2.store(0, std::sync::atomic::Ordering::SeqCst);
        (0..2)
            .map(|_| {
                let c = c2.clone();
                Box::new(move || {
                    let v = c.load(std::sync::atomic::Ordering::SeqCst);
                    yield_point(0);
                    c.store(v + 1, std::sync::atomic::Ordering::SeqCst);
                }) as Box<dyn FnOnce() + Send>
            })
            .collect()
    };
    let c3 = cell.clone();
    let check = move |_: &Execution| if c3.load(std::sync::atomic::Ordering::SeqCst) == 2 { Ok(0) } else { Err("lost update".to_string()) };
    let pool = Pool::new(2);
    let r0 = explore(&pool, 0, 1000, &make, &check);
    let r1 = explore(&pool, 1, 1000, &make, &check);
    if r0.failure.is_some() || r1.failure.is_none() {
        return Err("explorer self-check: the planted lost update was not found exactly at bound 1".into());
    }
    Ok(())
}
