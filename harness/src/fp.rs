//! `Fp`: an element of a prime field with a provenance tag, usable as a RustFFT element type.
//!
//! The ring homomorphism Z[zeta_M, 1/2, 1/m] -> F_p, zeta -> omega (omega a primitive M-th root of unity in F_p,
//! p = 1 mod M) maps cos(2 pi j/M) -> (w^j + w^-j)/2 and sin(2 pi j/M) -> (w^j - w^-j)/(2 I), I = w^(M/4).
//! Every twiddle factor the library asks for comes through hook H1 as (index, fft_len), so the portable code,
//! instantiated with `Fp`, computes the *exact* image of the complex DFT. Tags: CONST < DATA < POISON.
use crate::util::{is_prime, lcm, mulmod, powmod, prime_factors};
use num_traits::{FromPrimitive, Num, One, Signed, Zero};
use std::cell::{Cell, RefCell};
use std::ops::{Add, Div, Mul, Neg, Rem, Sub};

/// 0 is deliberately NOT a valid tag: a value whose bytes are all zero was not produced by any operation of the type
/// (`zero()`, `from_*`, arithmetic) but fabricated from raw memory (memset, `mem::zeroed`, a transmute). The type's zero
/// is therefore not the all-zero bit pattern, as for any representation with a non-trivial invariant.
pub const TAG_RAW: u8 = 0;
pub const TAG_CONST: u8 = 1;
pub const TAG_DATA: u8 = 2;
pub const TAG_POISON: u8 = 3;

pub const FLAG_NONLINEAR: u32 = 1; // data * data
pub const FLAG_UNKNOWN_CONST: u32 = 2; // from_f64 of a constant we cannot map exactly
pub const FLAG_BINDING: u32 = 4; // float twiddle handed over does not match (index, fft_len)
pub const FLAG_NONRING: u32 = 8; // abs/signum/is_positive/is_negative/rem/is_zero-on-data/compare
pub const FLAG_DIV_DATA: u32 = 16; // division by a data-dependent value
pub const FLAG_BAD_LEN: u32 = 32; // twiddle length does not divide M (collect pass missed it)
pub const FLAG_RAW_BYTES: u32 = 128; // an operand was never constructed by the type (all-zero bytes: memset / zeroed / transmute)
pub const FLAG_RATIONAL_CONST: u32 = 64; // a non-dyadic rational (e.g. 1/36) was routed through f64: an exact type cannot reproduce it

#[derive(Copy, Clone, Debug)]
pub struct Fp {
    pub v: u64,
    pub tag: u8,
}
impl PartialEq for Fp {
    fn eq(&self, o: &Fp) -> bool {
        // equality on data is a data-dependent branch
        if self.tag != TAG_CONST || o.tag != TAG_CONST {
            flag(FLAG_NONRING);
        }
        self.v == o.v
    }
}

#[derive(Clone, Debug)]
pub struct Field {
    pub p: u64,
    pub m: u64,
    pub omega: u64,
    pub iunit: u64,
    pub inv2: u64,
    pub inv2i: u64,
}

thread_local! {
    static P: Cell<u64> = Cell::new((1u64 << 61) - 1);
    static FIELD: RefCell<Option<Field>> = RefCell::new(None);
    static FLAGS: Cell<u32> = Cell::new(0);
    static COLLECT: RefCell<Option<Vec<u64>>> = RefCell::new(None);
    static OPS: Cell<u64> = Cell::new(0);
}

#[inline]
fn p() -> u64 {
    P.with(|c| c.get())
}
#[inline]
pub fn flag(f: u32) {
    FLAGS.with(|c| c.set(c.get() | f));
}
pub fn take_flags() -> u32 {
    FLAGS.with(|c| c.replace(0))
}
pub fn flag_names(f: u32) -> String {
    let mut v = Vec::new();
    for (b, n) in [
        (FLAG_NONLINEAR, "data*data"),
        (FLAG_UNKNOWN_CONST, "unknown-constant"),
        (FLAG_BINDING, "twiddle-binding-mismatch"),
        (FLAG_NONRING, "non-ring-operation"),
        (FLAG_DIV_DATA, "division-by-data"),
        (FLAG_BAD_LEN, "twiddle-length-not-collected"),
        (FLAG_RATIONAL_CONST, "rational-constant-rounded-through-f64"),
        (FLAG_RAW_BYTES, "value-fabricated-from-raw-bytes"),
    ] {
        if f & b != 0 {
            v.push(n);
        }
    }
    v.join("+")
}
pub fn ops() -> u64 {
    OPS.with(|c| c.get())
}

/// pass 1: start collecting the fft_len of every twiddle request (values are dummies)
pub fn begin_collect() {
    P.with(|c| c.set((1u64 << 61) - 1));
    FIELD.with(|f| *f.borrow_mut() = None);
    COLLECT.with(|c| *c.borrow_mut() = Some(Vec::new()));
    take_flags();
}
pub fn end_collect() -> Vec<u64> {
    let mut v = COLLECT.with(|c| c.borrow_mut().take()).unwrap_or_default();
    v.sort();
    v.dedup();
    take_flags();
    v
}

/// Find the `which`-th (0-based) prime p = 1 mod M with 2^40 < p < 2^62 and a primitive M-th root of unity.
pub fn make_field(lens: &[u64], which: usize) -> Result<Field, String> {
    let mut m = 8u64;
    for &l in lens {
        if l == 0 {
            continue;
        }
        m = lcm(m, l);
        if m > (1u64 << 56) {
            return Err(format!("lcm of twiddle lengths too large ({})", m));
        }
    }
    let mut k = ((1u64 << 40) / m) + 1;
    let mut found = 0;
    let p = loop {
        let cand = k.checked_mul(m).and_then(|x| x.checked_add(1)).ok_or("prime search overflow")?;
        if cand >= (1u64 << 62) {
            return Err("no prime below 2^62".into());
        }
        if is_prime(cand) {
            if found == which {
                break cand;
            }
            found += 1;
        }
        k += 1;
    };
    // prime factors of M from the individual lengths (each is small)
    let mut qs: Vec<u64> = vec![2];
    for &l in lens {
        if l > 1 {
            qs.extend(prime_factors(l));
        }
    }
    qs.sort();
    qs.dedup();
    let e = (p - 1) / m;
    let mut a = 2u64;
    let omega = loop {
        let g = powmod(a, e, p);
        if g != 1 && qs.iter().all(|&q| m % q != 0 || powmod(g, m / q, p) != 1) && powmod(g, m, p) == 1 {
            break g;
        }
        a += 1;
        if a > 10_000 {
            return Err("no primitive root found".into());
        }
    };
    let iunit = powmod(omega, m / 4, p);
    if mulmod(iunit, iunit, p) != p - 1 {
        return Err("I^2 != -1".into());
    }
    let inv2 = powmod(2, p - 2, p);
    let inv2i = powmod(mulmod(2, iunit, p), p - 2, p);
    Ok(Field { p, m, omega, iunit, inv2, inv2i })
}
pub fn install(f: &Field) {
    P.with(|c| c.set(f.p));
    FIELD.with(|c| *c.borrow_mut() = Some(f.clone()));
    COLLECT.with(|c| *c.borrow_mut() = None);
    take_flags();
}

impl Field {
    /// image of cos(2 pi t / len), sin(2 pi t / len)
    pub fn cos_sin(&self, t: u64, len: u64) -> (u64, u64) {
        debug_assert!(self.m % len == 0);
        let j = (t % len) * (self.m / len);
        let w = powmod(self.omega, j, self.p);
        let wi = powmod(self.omega, (self.m - j) % self.m, self.p);
        let c = mulmod((w + wi) % self.p, self.inv2, self.p);
        let s = mulmod((w + self.p - wi) % self.p, self.inv2i, self.p);
        (c, s)
    }
}

impl Fp {
    #[inline]
    pub fn data(v: u64) -> Fp {
        Fp { v: v % p(), tag: TAG_DATA }
    }
    #[inline]
    pub fn konst(v: u64) -> Fp {
        Fp { v: v % p(), tag: TAG_CONST }
    }
    #[inline]
    pub fn poison(v: u64) -> Fp {
        Fp { v: v % p(), tag: TAG_POISON }
    }
    pub fn from_signed(x: i64, tag: u8) -> Fp {
        let pp = p();
        let v = if x >= 0 { (x as u64) % pp } else { pp - ((x.unsigned_abs()) % pp) };
        Fp { v: v % pp, tag }
    }
}
#[inline]
fn tag_lin(a: u8, b: u8) -> u8 {
    if a == TAG_RAW || b == TAG_RAW {
        flag(FLAG_RAW_BYTES);
        return TAG_POISON;
    }
    a.max(b)
}
impl Add for Fp {
    type Output = Fp;
    #[inline]
    fn add(self, o: Fp) -> Fp {
        OPS.with(|c| c.set(c.get() + 1));
        let pp = p();
        let mut v = self.v + o.v;
        if v >= pp {
            v -= pp;
        }
        Fp { v, tag: tag_lin(self.tag, o.tag) }
    }
}
impl Sub for Fp {
    type Output = Fp;
    #[inline]
    fn sub(self, o: Fp) -> Fp {
        OPS.with(|c| c.set(c.get() + 1));
        let pp = p();
        let v = if self.v >= o.v { self.v - o.v } else { self.v + pp - o.v };
        Fp { v, tag: tag_lin(self.tag, o.tag) }
    }
}
impl Neg for Fp {
    type Output = Fp;
    #[inline]
    fn neg(self) -> Fp {
        let pp = p();
        Fp { v: if self.v == 0 { 0 } else { pp - self.v }, tag: tag_lin(self.tag, TAG_CONST) }
    }
}
impl Mul for Fp {
    type Output = Fp;
    #[inline]
    fn mul(self, o: Fp) -> Fp {
        OPS.with(|c| c.set(c.get() + 1));
        if self.tag == TAG_DATA && o.tag == TAG_DATA {
            flag(FLAG_NONLINEAR);
        }
        Fp { v: mulmod(self.v, o.v, p()), tag: tag_lin(self.tag, o.tag) }
    }
}
impl Div for Fp {
    type Output = Fp;
    fn div(self, o: Fp) -> Fp {
        if o.tag != TAG_CONST {
            flag(FLAG_DIV_DATA);
        }
        let pp = p();
        if o.v == 0 {
            flag(FLAG_NONRING);
            return Fp { v: 0, tag: TAG_POISON };
        }
        let inv = powmod(o.v, pp - 2, pp);
        Fp { v: mulmod(self.v, inv, pp), tag: tag_lin(self.tag, o.tag) }
    }
}
impl Rem for Fp {
    type Output = Fp;
    fn rem(self, _o: Fp) -> Fp {
        flag(FLAG_NONRING);
        self
    }
}
impl Zero for Fp {
    #[inline]
    fn zero() -> Fp {
        Fp { v: 0, tag: TAG_CONST }
    }
    fn is_zero(&self) -> bool {
        if self.tag != TAG_CONST {
            flag(FLAG_NONRING);
        }
        self.v == 0
    }
}
impl One for Fp {
    #[inline]
    fn one() -> Fp {
        Fp { v: 1, tag: TAG_CONST }
    }
}
impl Num for Fp {
    type FromStrRadixErr = ();
    fn from_str_radix(_s: &str, _r: u32) -> Result<Fp, ()> {
        Err(())
    }
}
impl Signed for Fp {
    fn abs(&self) -> Fp {
        flag(FLAG_NONRING);
        *self
    }
    fn abs_sub(&self, _o: &Fp) -> Fp {
        flag(FLAG_NONRING);
        *self
    }
    fn signum(&self) -> Fp {
        flag(FLAG_NONRING);
        *self
    }
    fn is_positive(&self) -> bool {
        flag(FLAG_NONRING);
        true
    }
    fn is_negative(&self) -> bool {
        flag(FLAG_NONRING);
        false
    }
}
impl FromPrimitive for Fp {
    fn from_i64(n: i64) -> Option<Fp> {
        Some(Fp::from_signed(n, TAG_CONST))
    }
    fn from_u64(n: u64) -> Option<Fp> {
        Some(Fp::konst(n))
    }
    fn from_f32(x: f32) -> Option<Fp> {
        Fp::from_f64(x as f64)
    }
    fn from_f64(x: f64) -> Option<Fp> {
        let ctx = rustfft::verif_hooks::twiddle_query();
        // pass 1: only collect lengths
        let collecting = COLLECT.with(|c| {
            let mut c = c.borrow_mut();
            if let Some(v) = c.as_mut() {
                if let Some((_, len, _)) = ctx {
                    v.push(len as u64);
                }
                true
            } else {
                false
            }
        });
        if collecting {
            return Some(Fp { v: 1, tag: TAG_CONST });
        }
        FIELD.with(|f| {
            let f = f.borrow();
            let f = match f.as_ref() {
                Some(f) => f,
                None => {
                    flag(FLAG_UNKNOWN_CONST);
                    return Some(Fp { v: 0, tag: TAG_POISON });
                }
            };
            if let Some((index, len, nth)) = ctx {
                let len = len as u64;
                if len == 0 || f.m % len != 0 {
                    flag(FLAG_BAD_LEN);
                    return Some(Fp { v: 0, tag: TAG_POISON });
                }
                let (c, s) = f.cos_sin(index as u64, len);
                let theta = 2.0 * std::f64::consts::PI * ((index as u64 % len) as f64) / (len as f64);
                let (v, expect) = if nth == 0 { (c, theta.cos()) } else { (if s == 0 { 0 } else { f.p - s }, -theta.sin()) };
                if (x - expect).abs() > 1e-9 || nth > 1 {
                    flag(FLAG_BINDING);
                }
                return Some(Fp { v, tag: TAG_CONST });
            }
            // outside a twiddle context
            let r = std::f64::consts::FRAC_1_SQRT_2;
            if (x.abs() - r).abs() < 1e-12 {
                let (c, _) = f.cos_sin(1, 8);
                return Some(Fp { v: if x > 0.0 { c } else { f.p - c }, tag: TAG_CONST });
            }
            if x == x.trunc() && x.abs() < 1e15 {
                return Some(Fp::from_signed(x as i64, TAG_CONST));
            }
            if x == 0.5 {
                return Some(Fp { v: f.inv2, tag: TAG_CONST });
            }
            if x == -0.5 {
                return Some(Fp { v: f.p - f.inv2, tag: TAG_CONST });
            }
            // a non-dyadic rational p/q with a small denominator: the value was exactly computable with ring
            // operations and a division, but arrives rounded to 53 bits. Continue with the intended value p/q.
            if let Some((num, den, neg)) = small_rational(x) {
                flag(FLAG_RATIONAL_CONST);
                let inv = powmod(den % f.p, f.p - 2, f.p);
                let v = mulmod(num % f.p, inv, f.p);
                return Some(Fp { v: if neg && v != 0 { f.p - v } else { v }, tag: TAG_CONST });
            }
            flag(FLAG_UNKNOWN_CONST);
            Some(Fp { v: 0, tag: TAG_POISON })
        })
    }
}

/// x ~ +-p/q with 1 < q <= 2^22 (continued fractions), relative error below 1e-14; dyadic and integer values are excluded
pub fn small_rational(x: f64) -> Option<(u64, u64, bool)> {
    if !x.is_finite() || x == 0.0 {
        return None;
    }
    let neg = x < 0.0;
    let a = x.abs();
    let (mut h0, mut h1, mut k0, mut k1) = (0u64, 1u64, 1u64, 0u64);
    let mut r = a;
    for _ in 0..40 {
        let fl = r.floor();
        if fl > 1e15 {
            break;
        }
        let ai = fl as u64;
        let h2 = ai.checked_mul(h1)?.checked_add(h0)?;
        let k2 = ai.checked_mul(k1)?.checked_add(k0)?;
        if k2 > (1u64 << 22) {
            break;
        }
        h0 = h1;
        h1 = h2;
        k0 = k1;
        k1 = k2;
        let approx = h1 as f64 / k1 as f64;
        if ((approx - a) / a).abs() < 1e-14 {
            if k1 > 1 && !k1.is_power_of_two() {
                return Some((h1, k1, neg));
            }
            return None;
        }
        let frac = r - fl;
        if frac < 1e-300 {
            break;
        }
        r = 1.0 / frac;
    }
    None
}

pub fn self_check() -> Result<(), String> {
    // a composite modulus typical for the sweeps
    let lens = [8u64, 37, 36, 74, 96, 1000];
    for which in 0..2 {
        let f = make_field(&lens, which)?;
        if !is_prime(f.p) || (f.p - 1) % f.m != 0 {
            return Err("field: p".into());
        }
        // order of omega is exactly m
        if powmod(f.omega, f.m, f.p) != 1 {
            return Err("field: omega^m".into());
        }
        for q in prime_factors(f.m) {
            if powmod(f.omega, f.m / q, f.p) == 1 {
                return Err("field: omega not primitive".into());
            }
        }
        // cos^2 + sin^2 = 1, cos(pi/3) = 1/2 (len 6 divides? use len 36: t=6), exact values
        for &len in &lens {
            for t in [0u64, 1, 2, len / 2, len - 1] {
                let (c, s) = f.cos_sin(t, len);
                if (mulmod(c, c, f.p) + mulmod(s, s, f.p)) % f.p != 1 {
                    return Err("field: cos^2+sin^2".into());
                }
            }
        }
        let (c, _s) = f.cos_sin(6, 36);
        if c != f.inv2 {
            return Err("field: cos(pi/3) != 1/2".into());
        }
        let (c, s) = f.cos_sin(1, 8);
        if c != s || mulmod(2, mulmod(c, c, f.p), f.p) != 1 {
            return Err("field: cos(pi/4)".into());
        }
        let (c, s) = f.cos_sin(1, 4);
        if c != 0 || s != 1 {
            return Err("field: quarter turn".into());
        }
    }
    Ok(())
}
