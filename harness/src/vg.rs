//! C03, second memory monitor: a reduced call-shape sweep executed under valgrind memcheck.
//! Guard pages see accesses outside the CALLER's buffers; they do not see reads past the end of the instance's own
//! heap tables (twiddles, multipliers, index tables), which the property also forbids ("the instance's own tables").
//! Here every caller buffer is an exactly-sized heap allocation and the instance's tables are ordinary heap blocks, so
//! memcheck reports any access outside either (red zones on both sides of every block).
//! A worker process runs the cases and prints `CASE <key>` before each call; valgrind's own log goes to the same pipe
//! (`--log-fd=1`), so an `Invalid read/write` record is attributed to the case that precedes it.
use crate::core::*;
use crate::framework::{Ctx, Report, Tier};
use crate::lens;
use crate::util::{threads, Json};
use std::io::{BufRead, BufReader, Write};
use std::process::{Command, Stdio};
use std::sync::Mutex;

pub fn vg_lens(tier: Tier) -> Vec<usize> {
    let dense = tier.pick(48usize, 320);
    let mut l: Vec<usize> = (1..=dense).collect();
    let pool = lens::thin(&lens::pool(dense, tier.pick(1 << 12, 1 << 15)), tier.pick(28, 200));
    l.extend(pool.iter().map(|x| x.0));
    // every SIMD row-remainder class of the larger mixed-radix kernels, and Rader/Bluestein over/under a radix chain
    for extra in tier.pick(vec![59usize * 4, 37 * 8, 1021, 2039, 4096 + 64, 65537], vec![59 * 4, 37 * 8, 1021, 2039, 4096 + 64, 65537, 65539, 2 * 65539, 147457]) {
        if !l.contains(&extra) {
            l.push(extra);
        }
    }
    l
}

fn case_key(pk: PK, ty: &str, d: rustfft::FftDirection, n: usize, e: Entry, k: usize) -> String {
    format!("C03|monitor=memcheck|pk={}|T={}|dir={}|n={}|entry={}|k={}", pk.name(), ty, dir_name(d), n, e.name(), k)
}

fn run_len<T: Real>(n: usize, only: &Option<String>, count: &mut u64) {
    let out = std::io::stdout();
    for pk in PK::DISTINCT {
        let mut pl = match AnyPlanner::<T>::new(pk) {
            Some(p) => p,
            None => continue,
        };
        for d in DIRS {
            if let Some(o) = only {
                if !o.contains(&format!("|pk={}|T={}|dir={}|n={}|", pk.name(), T::NAME, dir_name(d), n)) {
                    continue;
                }
            }
            {
                let mut h = out.lock();
                let _ = writeln!(h, "CASE\tC03|monitor=memcheck|pk={}|T={}|dir={}|n={}|entry=plan|k=0", pk.name(), T::NAME, dir_name(d), n);
                let _ = h.flush();
            }
            let fft = match plan_catch(&mut pl, n, d) {
                Ok(f) => f,
                Err(_) => continue,
            };
            for e in Entry::ALL {
                for k in if n > 20000 { vec![1usize] } else { vec![1usize, 2, 3] } {
                    let key = case_key(pk, T::NAME, d, n, e, k);
                    if let Some(o) = only {
                        if *o != key {
                            continue;
                        }
                    }
                    {
                        let mut h = out.lock();
                        let _ = writeln!(h, "CASE\t{}", key);
                        let _ = h.flush();
                    }
                    // exactly-sized heap buffers: memcheck puts red zones around each of them
                    let mut data: Vec<C<T>> = dense_vec::<T>(n * k, 300 + k as u64);
                    data.shrink_to_fit();
                    let z = C::new(T::from64(0.5), T::from64(-0.25));
                    let mut outb: Vec<C<T>> = if e.has_output() { vec![z; n * k] } else { Vec::new() };
                    let mut scr: Vec<C<T>> = vec![z; e.scratch_len(fft.as_ref())];
                    let _ = std::panic::catch_unwind(std::panic::AssertUnwindSafe(|| match e {
                        Entry::Process => fft.process(&mut data),
                        Entry::InPlace => fft.process_with_scratch(&mut data, &mut scr),
                        Entry::OutOfPlace => fft.process_outofplace_with_scratch(&mut data, &mut outb, &mut scr),
                        Entry::Immut => fft.process_immutable_with_scratch(&data, &mut outb, &mut scr),
                    }));
                    *count += 1;
                }
            }
        }
    }
}

/// `rfv vgworker <tier> <stripe> <nstripes> [single case key]`
pub fn worker_main(args: &[String]) -> i32 {
    let tier = if args.get(0).map(|s| s.as_str()) == Some("thorough") { Tier::Thorough } else { Tier::Quick };
    let stripe: usize = args.get(1).and_then(|s| s.parse().ok()).unwrap_or(0);
    let nstripes: usize = args.get(2).and_then(|s| s.parse().ok()).unwrap_or(1);
    let only: Option<String> = args.get(3).cloned();
    if let Some(m) = std::env::var("VERIF_FEATURE_MASK").ok().and_then(|s| s.parse::<u32>().ok()) {
        rustfft::verif_hooks::set_feature_mask(m);
    }
    let l = vg_lens(tier);
    let mut count = 0u64;
    for (i, &n) in l.iter().enumerate() {
        if only.is_none() && i % nstripes != stripe {
            continue;
        }
        if let Some(o) = &only {
            if !o.contains(&format!("|n={}|", n)) {
                continue;
            }
        }
        run_len::<f32>(n, &only, &mut count);
        run_len::<f64>(n, &only, &mut count);
    }
    println!("STAT cases={}", count);
    0
}

pub struct VgOut {
    pub cases: u64,
    /// (case key, first lines of the memcheck record)
    pub errors: Vec<(String, String)>,
    pub machinery: Vec<String>,
}

fn run_one(tier: Tier, stripe: usize, nstripes: usize, only: Option<&str>) -> VgOut {
    let exe = std::env::current_exe().expect("current_exe");
    let mut out = VgOut { cases: 0, errors: vec![], machinery: vec![] };
    let mut cmd = Command::new("valgrind");
    cmd.args(["-q", "--tool=memcheck", "--undef-value-errors=no", "--partial-loads-ok=no", "--error-limit=no", "--num-callers=16", "--redzone-size=128", "--log-fd=1", "--child-silent-after-fork=yes"]);
    cmd.arg(&exe).arg("vgworker").arg(tier.name()).arg(stripe.to_string()).arg(nstripes.to_string());
    if let Some(o) = only {
        cmd.arg(o);
    }
    cmd.stdout(Stdio::piped()).stderr(Stdio::null());
    let mut child = match cmd.spawn() {
        Ok(c) => c,
        Err(e) => {
            out.machinery.push(format!("cannot start valgrind: {}", e));
            return out;
        }
    };
    let stdout = child.stdout.take().unwrap();
    let mut current = String::from("(before the first case)");
    let mut got_stat = false;
    // an error record: "==pid== Invalid read of size N" followed by "==pid==    at ..." / "by ..." / "Address ..." lines
    let mut rec: Option<(String, Vec<String>)> = None;
    let mut flush = |rec: &mut Option<(String, Vec<String>)>, out: &mut VgOut| {
        if let Some((k, lines)) = rec.take() {
            if out.errors.len() < 64 {
                out.errors.push((k, lines.join(" | ")));
            }
        }
    };
    for line in BufReader::new(stdout).lines().flatten() {
        if let Some(k) = line.strip_prefix("CASE\t") {
            flush(&mut rec, &mut out);
            current = k.to_string();
        } else if let Some(rest) = line.strip_prefix("STAT cases=") {
            flush(&mut rec, &mut out);
            got_stat = true;
            out.cases += rest.trim().parse::<u64>().unwrap_or(0);
        } else if line.starts_with("==") {
            let text = line.splitn(3, "==").nth(2).unwrap_or("").trim().to_string();
            if text.starts_with("Invalid read") || text.starts_with("Invalid write") {
                flush(&mut rec, &mut out);
                rec = Some((current.clone(), vec![text]));
            } else if text.is_empty() {
                flush(&mut rec, &mut out);
            } else if let Some((_, lines)) = rec.as_mut() {
                if lines.len() < 14 {
                    lines.push(text);
                }
            } else if text.contains("Process terminating") || text.contains("Jump to the invalid address") {
                rec = Some((current.clone(), vec![text]));
            }
        }
    }
    flush(&mut rec, &mut out);
    let status = child.wait();
    if !got_stat && only.is_none() {
        out.machinery.push(format!("memcheck worker for stripe {} ended without a result: {:?}", stripe, status));
    }
    out
}

/// the memcheck pass of C03 (release flavour only): adds its counts and violations to `rep`
pub fn run_pass(ctx: &Ctx, rep: &mut Report) {
    if Command::new("valgrind").arg("--version").stdout(Stdio::null()).stderr(Stdio::null()).status().map(|s| !s.success()).unwrap_or(true) {
        rep.notes.push("valgrind is not available: the memcheck pass was skipped (guard pages and the debug-assertion flavour still ran)".into());
        return;
    }
    let nstripes = threads();
    let outs: Mutex<Vec<VgOut>> = Mutex::new(Vec::new());
    std::thread::scope(|s| {
        for st in 0..nstripes {
            let outs = &outs;
            s.spawn(move || {
                let o = run_one(ctx.tier, st, nstripes, None);
                outs.lock().unwrap().push(o);
            });
        }
    });
    let mut cases = 0u64;
    let mut recs = 0u64;
    for o in outs.into_inner().unwrap() {
        cases += o.cases;
        for (k, text) in o.errors {
            recs += 1;
            // records with no frame of the library in them are the harness's or the runtime's business
            if text.contains("rustfft") {
                rep.violate(k, format!("memcheck: {}", text.chars().take(600).collect::<String>()), Json::Str(text));
            } else {
                rep.machinery_errors.push(format!("memcheck record without a rustfft frame during {}: {}", k, text.chars().take(300).collect::<String>()));
            }
        }
        rep.machinery_errors.extend(o.machinery);
    }
    rep.evaluations += cases;
    rep.transitions += cases;
    rep.distinct_nontrivial += cases;
    rep.set("memcheck_cases", cases);
    rep.set("memcheck_invalid_access_records", recs);
    rep.set("memcheck_lengths", Json::Arr(vg_lens(ctx.tier).iter().map(|x| Json::Int(*x as i64)).collect()));
}

/// replay of one memcheck case (twice)
pub fn replay(ctx: &Ctx, key: &str, rep: &mut Report) {
    let mut results = Vec::new();
    for _ in 0..2 {
        let o = run_one(ctx.tier, 0, 1, Some(key));
        let what = o.errors.iter().find(|(_, t)| t.contains("rustfft")).map(|(_, t)| t.chars().take(300).collect::<String>());
        println!("replay: {}", what.clone().map(|w| format!("reproduces: {}", w)).unwrap_or("does not reproduce".into()));
        results.push(what);
    }
    if results[0].is_some() != results[1].is_some() {
        rep.machinery_errors.push("memcheck replay is not deterministic".into());
    } else if let Some(w) = results[0].clone() {
        rep.violate(key.to_string(), format!("memcheck: {}", w), Json::Null);
    }
}
