//! rfv: model-checking harness for RustFFT (see /verif/DESIGN.md).
#![allow(dead_code)]
mod core;
mod dd;
mod elem;
mod exact;
mod floatlayer;
mod fp;
mod framework;
mod inputs;
mod lens;
mod mem;
mod memcheck;
mod planparse;
mod refdft;
mod sched;
mod util;
mod vg;
mod checks;

use framework::{Ctx, Tier};
use std::time::Instant;

fn usage() -> ! {
    eprintln!("usage: rfv <C01..C15|selfcheck> [--tier quick|thorough] [--replay file] [--flavour name]");
    std::process::exit(2);
}

extern "C" {
    fn mallopt(param: i32, value: i32) -> i32;
}

fn main() {
    // The sweeps allocate and free millions of medium-sized buffers from 16 threads; without this glibc returns
    // memory to the kernel (munmap / trim) after every call and most of the wall time is page faults.
    unsafe {
        mallopt(-1, i32::MAX); // M_TRIM_THRESHOLD
        mallopt(-2, 256 << 20); // M_TOP_PAD
        mallopt(-3, 32 << 20); // M_MMAP_THRESHOLD (glibc caps it at 32 MiB)
    }
    let args: Vec<String> = std::env::args().collect();
    if args.len() < 2 {
        usage();
    }
    let id = args[1].clone();
    if id == "merge-evidence" {
        std::process::exit(merge_evidence(&args[2..]));
    }
    if id == "c12worker" {
        std::process::exit(checks::c12::worker_main(&args[2..]));
    }
    if id == "vgworker" {
        std::process::exit(vg::worker_main(&args[2..]));
    }
    if id == "memworker" {
        std::process::exit(memcheck::worker_main(&args[2..]));
    }
    let mut tier = match std::env::var("VERIF_TIER").as_deref() {
        Ok("thorough") => Tier::Thorough,
        _ => Tier::Quick,
    };
    let mut replay = None;
    let mut flavour = "rel".to_string();
    let mut rest: Vec<String> = Vec::new();
    let mut i = 2;
    while i < args.len() {
        match args[i].as_str() {
            "--tier" => {
                i += 1;
                tier = match args.get(i).map(|s| s.as_str()) {
                    Some("quick") => Tier::Quick,
                    Some("thorough") => Tier::Thorough,
                    _ => usage(),
                };
            }
            "--replay" => {
                i += 1;
                let path = args.get(i).cloned().unwrap_or_else(|| usage());
                let text = std::fs::read_to_string(&path).unwrap_or_else(|e| {
                    eprintln!("cannot read replay file {}: {}", path, e);
                    std::process::exit(2)
                });
                replay = Some(util::Json::parse(&text).unwrap_or_else(|e| {
                    eprintln!("bad replay file: {}", e);
                    std::process::exit(2)
                }));
            }
            "--flavour" => {
                i += 1;
                flavour = args.get(i).cloned().unwrap_or_else(|| usage());
            }
            other => rest.push(other.to_string()),
        }
        i += 1;
    }
    let seed: u64 = std::env::var("VERIF_SEED").ok().and_then(|s| s.parse().ok()).unwrap_or(20260923);
    let ctx = Ctx { id: id.clone(), tier, seed, start: Instant::now(), replay, flavour };
    core::quiet_panics();
    // oracle self-checks: a failure is a machinery error, never a verdict
    if let Err(e) = dd::self_check().and_then(|_| fp::self_check()) {
        eprintln!("MACHINERY-ERROR: oracle self-check failed: {}", e);
        std::process::exit(2);
    }
    let code = match std::panic::catch_unwind(std::panic::AssertUnwindSafe(|| checks::dispatch(&ctx, &rest))) {
        Ok(c) => c,
        Err(_) => {
            eprintln!("MACHINERY-ERROR: the harness itself panicked; no verdict");
            2
        }
    };
    std::process::exit(code);
}

/// `rfv merge-evidence <id> <part>...`: combine the per-flavour evidence parts of one check into evidence/<id>.json
fn merge_evidence(args: &[String]) -> i32 {
    use util::Json;
    let id = match args.get(0) {
        Some(i) => i.clone(),
        None => return 2,
    };
    let dir = framework::root().join("evidence");
    let mut parts: Vec<(String, Json)> = Vec::new();
    for p in &args[1..] {
        let path = dir.join(format!("{}.{}.part.json", id, p));
        match std::fs::read_to_string(&path).map_err(|e| e.to_string()).and_then(|t| Json::parse(&t)) {
            Ok(j) => parts.push((p.clone(), j)),
            Err(e) => {
                eprintln!("MACHINERY-ERROR: evidence part {} unreadable: {}", path.display(), e);
                return 2;
            }
        }
    }
    if parts.is_empty() {
        return 2;
    }
    let mut cov = Json::obj();
    let mut samples = Vec::new();
    let mut rules = Vec::new();
    let mut assumptions: Vec<Json> = Vec::new();
    let mut wall = 0.0;
    let mut violations = 0i64;
    let sum_keys = ["evaluations", "distinct_nontrivial", "states", "transitions", "traces_validated_against_impl"];
    let mut sums = std::collections::BTreeMap::new();
    let mut exhaustive = true;
    let mut per_part = Json::obj();
    for (name, j) in &parts {
        let c = j.get("coverage").cloned().unwrap_or(Json::obj());
        for k in sum_keys {
            *sums.entry(k).or_insert(0i64) += c.get(k).and_then(|v| v.as_i64()).unwrap_or(0);
        }
        if let Some(a) = c.get("samples").and_then(|s| s.as_arr()) {
            for s in a.iter().take(4) {
                samples.push(s.clone());
            }
        }
        if let Some(r) = c.get("rule").and_then(|r| r.as_str()) {
            rules.push(r.to_string());
        }
        if c.get("exhaustive") != Some(&Json::Bool(true)) {
            exhaustive = false;
        }
        if let Some(a) = j.get("assumptions").and_then(|s| s.as_arr()) {
            for s in a {
                if !assumptions.contains(s) {
                    assumptions.push(s.clone());
                }
            }
        }
        wall += match j.get("wall_s") {
            Some(Json::Num(f)) => *f,
            Some(Json::Int(i)) => *i as f64,
            _ => 0.0,
        };
        violations += j.get("violations").and_then(|v| v.as_i64()).unwrap_or(0);
        per_part.set(name, c);
    }
    for (k, v) in sums {
        cov.set(k, v);
    }
    cov.set("samples", Json::Arr(samples));
    cov.set("rule", rules.join(" || "));
    cov.set("exhaustive", exhaustive);
    cov.set("per_build_flavour", per_part);
    let first = &parts[0].1;
    let ev = Json::obj()
        .with("property_id", id.as_str())
        .with("tier", first.get("tier").cloned().unwrap_or(Json::Str("quick".into())))
        .with("seed", first.get("seed").cloned().unwrap_or(Json::Int(0)))
        .with("level", first.get("level").cloned().unwrap_or(Json::Str("model_checking".into())))
        .with("coverage", cov)
        .with("assumptions", Json::Arr(assumptions))
        .with("wall_s", wall)
        .with("violations", violations);
    if std::fs::write(dir.join(format!("{}.json", id)), ev.to_string_pretty()).is_err() {
        return 2;
    }
    for p in &args[1..] {
        let _ = std::fs::remove_file(dir.join(format!("{}.{}.part.json", id, p)));
    }
    0
}
