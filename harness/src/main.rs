//! rfv: model-checking harness for RustFFT (see /verif/DESIGN.md).
#![allow(dead_code)]
mod core;
mod dd;
mod exact;
mod floatlayer;
mod fp;
mod framework;
mod inputs;
mod lens;
mod refdft;
mod util;
mod checks;

use framework::{Ctx, Tier};
use std::time::Instant;

fn usage() -> ! {
    eprintln!("usage: rfv <C01..C15|selfcheck> [--tier quick|thorough] [--replay file] [--flavour name]");
    std::process::exit(2);
}

fn main() {
    let args: Vec<String> = std::env::args().collect();
    if args.len() < 2 {
        usage();
    }
    let id = args[1].clone();
    let mut tier = match std::env::var("VERIF_TIER").as_deref() {
        Ok("thorough") => Tier::Thorough,
        _ => Tier::Quick,
    };
    let mut replay = None;
    let mut flavour = "rel".to_string();
    let mut rest: Vec<String> = Vec::new();
    let mut i = 2;
    while i < args.len() {
        match args[i].as_str() {
            "--tier" => {
                i += 1;
                tier = match args.get(i).map(|s| s.as_str()) {
                    Some("quick") => Tier::Quick,
                    Some("thorough") => Tier::Thorough,
                    _ => usage(),
                };
            }
            "--replay" => {
                i += 1;
                let path = args.get(i).cloned().unwrap_or_else(|| usage());
                let text = std::fs::read_to_string(&path).unwrap_or_else(|e| {
                    eprintln!("cannot read replay file {}: {}", path, e);
                    std::process::exit(2)
                });
                replay = Some(util::Json::parse(&text).unwrap_or_else(|e| {
                    eprintln!("bad replay file: {}", e);
                    std::process::exit(2)
                }));
            }
            "--flavour" => {
                i += 1;
                flavour = args.get(i).cloned().unwrap_or_else(|| usage());
            }
            other => rest.push(other.to_string()),
        }
        i += 1;
    }
    let seed: u64 = std::env::var("VERIF_SEED").ok().and_then(|s| s.parse().ok()).unwrap_or(20260923);
    let ctx = Ctx { id: id.clone(), tier, seed, start: Instant::now(), replay, flavour };
    core::quiet_panics();
    // oracle self-checks: a failure is a machinery error, never a verdict
    if let Err(e) = dd::self_check().and_then(|_| fp::self_check()) {
        eprintln!("MACHINERY-ERROR: oracle self-check failed: {}", e);
        std::process::exit(2);
    }
    let code = checks::dispatch(&ctx, &rest);
    std::process::exit(code);
}
