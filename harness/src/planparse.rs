//! Parser for the `{:?}` text of the planners' plan descriptions (hook H4) and a small evaluator:
//! length of a recipe, largest naive-DFT node, node census.
use std::collections::BTreeMap;

#[derive(Debug, Clone, PartialEq)]
pub enum Val {
    Num(u64),
    List(Vec<Val>),
    Node(Node),
}
#[derive(Debug, Clone, PartialEq)]
pub struct Node {
    pub name: String,
    /// named fields (`Name { a: v }`) or positional (`Name(v, w)` as "0", "1")
    pub fields: Vec<(String, Val)>,
}
impl Node {
    pub fn get(&self, k: &str) -> Option<&Val> {
        self.fields.iter().find(|f| f.0 == k).map(|f| &f.1)
    }
    pub fn num(&self, k: &str) -> Option<u64> {
        match self.get(k) {
            Some(Val::Num(n)) => Some(*n),
            _ => None,
        }
    }
    pub fn node(&self, k: &str) -> Option<&Node> {
        match self.get(k) {
            Some(Val::Node(n)) => Some(n),
            _ => None,
        }
    }
}

pub fn parse(s: &str) -> Result<Val, String> {
    let b = s.as_bytes();
    let mut i = 0;
    let v = val(b, &mut i)?;
    ws(b, &mut i);
    if i != b.len() {
        return Err(format!("trailing text at {} in {:?}", i, s));
    }
    Ok(v)
}
fn ws(b: &[u8], i: &mut usize) {
    while *i < b.len() && (b[*i] == b' ' || b[*i] == b'\n' || b[*i] == b'\t') {
        *i += 1;
    }
}
fn val(b: &[u8], i: &mut usize) -> Result<Val, String> {
    ws(b, i);
    if *i >= b.len() {
        return Err("eof".into());
    }
    let c = b[*i];
    if c.is_ascii_digit() {
        let st = *i;
        while *i < b.len() && b[*i].is_ascii_digit() {
            *i += 1;
        }
        return std::str::from_utf8(&b[st..*i]).unwrap().parse::<u64>().map(Val::Num).map_err(|e| e.to_string());
    }
    if c == b'[' {
        *i += 1;
        let mut v = Vec::new();
        loop {
            ws(b, i);
            if b.get(*i) == Some(&b']') {
                *i += 1;
                break;
            }
            v.push(val(b, i)?);
            ws(b, i);
            if b.get(*i) == Some(&b',') {
                *i += 1;
            }
        }
        return Ok(Val::List(v));
    }
    if c.is_ascii_alphabetic() || c == b'_' {
        let st = *i;
        while *i < b.len() && (b[*i].is_ascii_alphanumeric() || b[*i] == b'_') {
            *i += 1;
        }
        let name = std::str::from_utf8(&b[st..*i]).unwrap().to_string();
        ws(b, i);
        let mut fields = Vec::new();
        match b.get(*i) {
            Some(b'{') => {
                *i += 1;
                loop {
                    ws(b, i);
                    if b.get(*i) == Some(&b'}') {
                        *i += 1;
                        break;
                    }
                    let st = *i;
                    while *i < b.len() && (b[*i].is_ascii_alphanumeric() || b[*i] == b'_') {
                        *i += 1;
                    }
                    let k = std::str::from_utf8(&b[st..*i]).unwrap().to_string();
                    ws(b, i);
                    if b.get(*i) != Some(&b':') {
                        return Err(format!("expected ':' at {}", *i));
                    }
                    *i += 1;
                    let v = val(b, i)?;
                    fields.push((k, v));
                    ws(b, i);
                    if b.get(*i) == Some(&b',') {
                        *i += 1;
                    }
                }
            }
            Some(b'(') => {
                *i += 1;
                let mut idx = 0;
                loop {
                    ws(b, i);
                    if b.get(*i) == Some(&b')') {
                        *i += 1;
                        break;
                    }
                    let v = val(b, i)?;
                    fields.push((idx.to_string(), v));
                    idx += 1;
                    ws(b, i);
                    if b.get(*i) == Some(&b',') {
                        *i += 1;
                    }
                }
            }
            _ => {}
        }
        return Ok(Val::Node(Node { name, fields }));
    }
    Err(format!("unexpected byte {:?} at {}", c as char, *i))
}

/// Length of a scalar/SSE `Recipe` tree. Err if a node is unknown or inconsistent.
pub fn recipe_len(n: &Node) -> Result<u64, String> {
    let nm = n.name.as_str();
    if let Some(d) = nm.strip_prefix("Butterfly") {
        return d.parse::<u64>().map_err(|_| format!("bad butterfly {}", nm));
    }
    match nm {
        "Dft" => n.num("0").ok_or("Dft arg".into()),
        "PrimeButterfly" => n.num("len").ok_or("PrimeButterfly len".into()),
        "MixedRadix" | "MixedRadixSmall" | "GoodThomasAlgorithm" | "GoodThomasAlgorithmSmall" => {
            let l = recipe_len(n.node("left_fft").ok_or("left")?)?;
            let r = recipe_len(n.node("right_fft").ok_or("right")?)?;
            Ok(l * r)
        }
        "RadersAlgorithm" => Ok(recipe_len(n.node("inner_fft").ok_or("inner")?)? + 1),
        "BluesteinsAlgorithm" => {
            let len = n.num("len").ok_or("len")?;
            let inner = recipe_len(n.node("inner_fft").ok_or("inner")?)?;
            if len > 0 && inner < 2 * len - 1 {
                return Err(format!("Bluestein inner {} < 2*{}-1", inner, len));
            }
            Ok(len)
        }
        "Radix4" => {
            let k = n.num("k").ok_or("k")?;
            Ok(recipe_len(n.node("base_fft").ok_or("base")?)? << (2 * k))
        }
        "RadixN" => {
            let mut l = recipe_len(n.node("base_fft").ok_or("base")?)?;
            match n.get("factors") {
                Some(Val::List(fs)) => {
                    for f in fs {
                        if let Val::Node(fnode) = f {
                            let r: u64 = fnode.name.strip_prefix("Factor").and_then(|d| d.parse().ok()).ok_or("factor")?;
                            l *= r;
                        } else {
                            return Err("factor".into());
                        }
                    }
                }
                _ => return Err("factors".into()),
            }
            Ok(l)
        }
        other => Err(format!("unknown recipe node {}", other)),
    }
}

/// visit every node of a tree
pub fn walk<'a>(v: &'a Val, f: &mut dyn FnMut(&'a Node)) {
    match v {
        Val::Node(n) => {
            f(n);
            for (_, c) in &n.fields {
                walk(c, f);
            }
        }
        Val::List(l) => {
            for c in l {
                walk(c, f);
            }
        }
        Val::Num(_) => {}
    }
}

/// largest `Dft(len)` node in a recipe tree
pub fn max_dft(v: &Val) -> u64 {
    let mut m = 0;
    walk(v, &mut |n| {
        if n.name == "Dft" {
            m = m.max(n.num("0").unwrap_or(0));
        }
    });
    m
}
pub fn census(v: &Val, into: &mut BTreeMap<String, u64>) {
    walk(v, &mut |n| {
        let key = if n.name.starts_with("Butterfly") { "Butterfly*".to_string() } else { n.name.clone() };
        *into.entry(key).or_insert(0) += 1;
    });
}

#[derive(Debug, Clone, PartialEq)]
pub enum AvxBase {
    Butterfly(u64),
    Raders(u64),
    Bluesteins(u64, u64),
    Cache(u64),
}
#[derive(Debug, Clone)]
pub struct AvxPlan {
    pub len: u64,
    pub radixes: Vec<u64>,
    pub base: AvxBase,
}
impl AvxPlan {
    pub fn base_len(&self) -> u64 {
        match self.base {
            AvxBase::Butterfly(l) | AvxBase::Raders(l) | AvxBase::Cache(l) => l,
            AvxBase::Bluesteins(l, _) => l,
        }
    }
    /// every stage length of the radix chain, base first
    pub fn stages(&self) -> Vec<u64> {
        let mut v = vec![self.base_len()];
        let mut cur = self.base_len();
        for r in &self.radixes {
            cur *= r;
            v.push(cur);
        }
        v
    }
}
pub fn parse_avx(s: &str) -> Result<AvxPlan, String> {
    let v = parse(s)?;
    let n = match &v {
        Val::Node(n) if n.name == "MixedRadixPlan" => n,
        _ => return Err("not a MixedRadixPlan".into()),
    };
    let len = n.num("len").ok_or("len")?;
    let radixes = match n.get("radixes") {
        Some(Val::List(l)) => l.iter().map(|x| if let Val::Num(r) = x { Ok(*r) } else { Err("radix".to_string()) }).collect::<Result<Vec<_>, _>>()?,
        _ => return Err("radixes".into()),
    };
    let b = n.node("base").ok_or("base")?;
    let base = match b.name.as_str() {
        "ButterflyBase" => AvxBase::Butterfly(b.num("0").ok_or("b0")?),
        "RadersBase" => AvxBase::Raders(b.num("0").ok_or("b0")?),
        "BluesteinsBase" => AvxBase::Bluesteins(b.num("0").ok_or("b0")?, b.num("1").ok_or("b1")?),
        "CacheBase" => AvxBase::Cache(b.num("0").ok_or("b0")?),
        o => return Err(format!("unknown base {}", o)),
    };
    let p = AvxPlan { len, radixes, base };
    let prod: u64 = p.radixes.iter().product::<u64>() * p.base_len();
    if prod != p.len {
        return Err(format!("plan does not multiply out: base {} x {:?} != {}", p.base_len(), p.radixes, p.len));
    }
    Ok(p)
}
