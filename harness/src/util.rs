//! Small self-contained utilities: JSON value, deterministic RNG, FNV hash, work-queue parallelism.
use std::collections::BTreeMap;
use std::fmt::Write as _;
use std::sync::atomic::{AtomicUsize, Ordering};
use std::sync::Mutex;

// ------------------------------------------------------------------ JSON
#[derive(Clone, Debug, PartialEq)]
pub enum Json {
    Null,
    Bool(bool),
    Int(i64),
    Num(f64),
    Str(String),
    Arr(Vec<Json>),
    Obj(BTreeMap<String, Json>),
}
impl Json {
    pub fn obj() -> Json {
        Json::Obj(BTreeMap::new())
    }
    pub fn set(&mut self, k: &str, v: impl Into<Json>) -> &mut Self {
        if let Json::Obj(m) = self {
            m.insert(k.to_string(), v.into());
        }
        self
    }
    pub fn with(mut self, k: &str, v: impl Into<Json>) -> Self {
        self.set(k, v);
        self
    }
    pub fn get(&self, k: &str) -> Option<&Json> {
        if let Json::Obj(m) = self {
            m.get(k)
        } else {
            None
        }
    }
    pub fn as_str(&self) -> Option<&str> {
        if let Json::Str(s) = self {
            Some(s)
        } else {
            None
        }
    }
    pub fn as_i64(&self) -> Option<i64> {
        match self {
            Json::Int(i) => Some(*i),
            Json::Num(f) => Some(*f as i64),
            _ => None,
        }
    }
    pub fn as_arr(&self) -> Option<&Vec<Json>> {
        if let Json::Arr(a) = self {
            Some(a)
        } else {
            None
        }
    }
    pub fn to_string_pretty(&self) -> String {
        let mut s = String::new();
        self.write(&mut s, 0, true);
        s
    }
    pub fn to_string_compact(&self) -> String {
        let mut s = String::new();
        self.write(&mut s, 0, false);
        s
    }
    fn write(&self, out: &mut String, ind: usize, pretty: bool) {
        match self {
            Json::Null => out.push_str("null"),
            Json::Bool(b) => out.push_str(if *b { "true" } else { "false" }),
            Json::Int(i) => {
                let _ = write!(out, "{}", i);
            }
            Json::Num(f) => {
                if f.is_finite() {
                    let _ = write!(out, "{:e}", f);
                } else {
                    let _ = write!(out, "\"{}\"", f);
                }
            }
            Json::Str(s) => write_str(out, s),
            Json::Arr(a) => {
                if a.is_empty() {
                    out.push_str("[]");
                    return;
                }
                // arrays of scalars stay on one line
                let scalar = a.iter().all(|x| !matches!(x, Json::Arr(_) | Json::Obj(_)));
                out.push('[');
                for (i, x) in a.iter().enumerate() {
                    if i > 0 {
                        out.push(',');
                    }
                    if pretty && !scalar {
                        out.push('\n');
                        out.push_str(&" ".repeat(ind + 1));
                    } else if i > 0 && pretty {
                        out.push(' ');
                    }
                    x.write(out, ind + 1, pretty);
                }
                if pretty && !scalar {
                    out.push('\n');
                    out.push_str(&" ".repeat(ind));
                }
                out.push(']');
            }
            Json::Obj(m) => {
                if m.is_empty() {
                    out.push_str("{}");
                    return;
                }
                out.push('{');
                for (i, (k, v)) in m.iter().enumerate() {
                    if i > 0 {
                        out.push(',');
                    }
                    if pretty {
                        out.push('\n');
                        out.push_str(&" ".repeat(ind + 1));
                    }
                    write_str(out, k);
                    out.push(':');
                    if pretty {
                        out.push(' ');
                    }
                    v.write(out, ind + 1, pretty);
                }
                if pretty {
                    out.push('\n');
                    out.push_str(&" ".repeat(ind));
                }
                out.push('}');
            }
        }
    }
    pub fn parse(s: &str) -> Result<Json, String> {
        let b = s.as_bytes();
        let mut i = 0;
        let v = parse_value(b, &mut i)?;
        skip_ws(b, &mut i);
        if i != b.len() {
            return Err(format!("trailing characters at {}", i));
        }
        Ok(v)
    }
}
fn write_str(out: &mut String, s: &str) {
    out.push('"');
    for c in s.chars() {
        match c {
            '"' => out.push_str("\\\""),
            '\\' => out.push_str("\\\\"),
            '\n' => out.push_str("\\n"),
            '\r' => out.push_str("\\r"),
            '\t' => out.push_str("\\t"),
            c if (c as u32) < 0x20 => {
                let _ = write!(out, "\\u{:04x}", c as u32);
            }
            c => out.push(c),
        }
    }
    out.push('"');
}
fn skip_ws(b: &[u8], i: &mut usize) {
    while *i < b.len() && (b[*i] as char).is_ascii_whitespace() {
        *i += 1;
    }
}
fn parse_value(b: &[u8], i: &mut usize) -> Result<Json, String> {
    skip_ws(b, i);
    if *i >= b.len() {
        return Err("eof".into());
    }
    match b[*i] {
        b'{' => {
            *i += 1;
            let mut m = BTreeMap::new();
            loop {
                skip_ws(b, i);
                if b.get(*i) == Some(&b'}') {
                    *i += 1;
                    break;
                }
                let k = match parse_value(b, i)? {
                    Json::Str(s) => s,
                    _ => return Err("key".into()),
                };
                skip_ws(b, i);
                if b.get(*i) != Some(&b':') {
                    return Err("colon".into());
                }
                *i += 1;
                let v = parse_value(b, i)?;
                m.insert(k, v);
                skip_ws(b, i);
                match b.get(*i) {
                    Some(b',') => *i += 1,
                    Some(b'}') => {
                        *i += 1;
                        break;
                    }
                    _ => return Err("obj sep".into()),
                }
            }
            Ok(Json::Obj(m))
        }
        b'[' => {
            *i += 1;
            let mut a = Vec::new();
            loop {
                skip_ws(b, i);
                if b.get(*i) == Some(&b']') {
                    *i += 1;
                    break;
                }
                a.push(parse_value(b, i)?);
                skip_ws(b, i);
                match b.get(*i) {
                    Some(b',') => *i += 1,
                    Some(b']') => {
                        *i += 1;
                        break;
                    }
                    _ => return Err("arr sep".into()),
                }
            }
            Ok(Json::Arr(a))
        }
        b'"' => {
            *i += 1;
            let mut s = String::new();
            while *i < b.len() && b[*i] != b'"' {
                if b[*i] == b'\\' {
                    *i += 1;
                    match b.get(*i) {
                        Some(b'n') => s.push('\n'),
                        Some(b't') => s.push('\t'),
                        Some(b'r') => s.push('\r'),
                        Some(b'u') => {
                            let h = std::str::from_utf8(&b[*i + 1..*i + 5]).map_err(|e| e.to_string())?;
                            let c = u32::from_str_radix(h, 16).map_err(|e| e.to_string())?;
                            s.push(char::from_u32(c).unwrap_or('?'));
                            *i += 4;
                        }
                        Some(c) => s.push(*c as char),
                        None => return Err("esc".into()),
                    }
                    *i += 1;
                } else {
                    // copy a full utf-8 sequence
                    let start = *i;
                    *i += 1;
                    while *i < b.len() && (b[*i] & 0xC0) == 0x80 {
                        *i += 1;
                    }
                    s.push_str(std::str::from_utf8(&b[start..*i]).map_err(|e| e.to_string())?);
                }
            }
            *i += 1;
            Ok(Json::Str(s))
        }
        b't' => {
            *i += 4;
            Ok(Json::Bool(true))
        }
        b'f' => {
            *i += 5;
            Ok(Json::Bool(false))
        }
        b'n' => {
            *i += 4;
            Ok(Json::Null)
        }
        _ => {
            let start = *i;
            while *i < b.len() && matches!(b[*i], b'0'..=b'9' | b'-' | b'+' | b'.' | b'e' | b'E') {
                *i += 1;
            }
            let t = std::str::from_utf8(&b[start..*i]).unwrap();
            if let Ok(v) = t.parse::<i64>() {
                Ok(Json::Int(v))
            } else {
                t.parse::<f64>().map(Json::Num).map_err(|e| format!("num {:?}: {}", t, e))
            }
        }
    }
}
impl From<bool> for Json {
    fn from(v: bool) -> Self {
        Json::Bool(v)
    }
}
impl From<i64> for Json {
    fn from(v: i64) -> Self {
        Json::Int(v)
    }
}
impl From<u64> for Json {
    fn from(v: u64) -> Self {
        Json::Int(v as i64)
    }
}
impl From<usize> for Json {
    fn from(v: usize) -> Self {
        Json::Int(v as i64)
    }
}
impl From<u32> for Json {
    fn from(v: u32) -> Self {
        Json::Int(v as i64)
    }
}
impl From<i32> for Json {
    fn from(v: i32) -> Self {
        Json::Int(v as i64)
    }
}
impl From<f64> for Json {
    fn from(v: f64) -> Self {
        Json::Num(v)
    }
}
impl From<&str> for Json {
    fn from(v: &str) -> Self {
        Json::Str(v.to_string())
    }
}
impl From<String> for Json {
    fn from(v: String) -> Self {
        Json::Str(v)
    }
}
impl<T: Into<Json>> From<Vec<T>> for Json {
    fn from(v: Vec<T>) -> Self {
        Json::Arr(v.into_iter().map(|x| x.into()).collect())
    }
}

// ------------------------------------------------------------------ RNG / hash
#[derive(Clone)]
pub struct Rng(pub u64);
impl Rng {
    pub fn new(seed: u64) -> Self {
        let mut r = Rng(seed ^ 0x9E3779B97F4A7C15);
        if r.0 == 0 {
            r.0 = 0x1234567;
        }
        for _ in 0..4 {
            r.next();
        }
        r
    }
    #[inline]
    pub fn next(&mut self) -> u64 {
        // xorshift64*
        let mut x = self.0;
        x ^= x >> 12;
        x ^= x << 25;
        x ^= x >> 27;
        self.0 = x;
        x.wrapping_mul(0x2545F4914F6CDD1D)
    }
    /// uniform in [0,1)
    #[inline]
    pub fn unit(&mut self) -> f64 {
        (self.next() >> 11) as f64 / (1u64 << 53) as f64
    }
    /// uniform in [-1,1)
    #[inline]
    pub fn sym(&mut self) -> f64 {
        self.unit() * 2.0 - 1.0
    }
    /// approximately standard normal (sum of 12 uniforms)
    pub fn gauss(&mut self) -> f64 {
        let mut s = 0.0;
        for _ in 0..12 {
            s += self.unit();
        }
        s - 6.0
    }
    pub fn below(&mut self, n: u64) -> u64 {
        self.next() % n.max(1)
    }
}

pub const FNV_OFFSET: u64 = 0xcbf29ce484222325;
#[inline]
pub fn fnv_u64(mut h: u64, v: u64) -> u64 {
    for i in 0..8 {
        h ^= (v >> (8 * i)) & 0xff;
        h = h.wrapping_mul(0x100000001b3);
    }
    h
}
pub fn fnv_bytes(mut h: u64, b: &[u8]) -> u64 {
    for x in b {
        h ^= *x as u64;
        h = h.wrapping_mul(0x100000001b3);
    }
    h
}
pub fn fnv_str(s: &str) -> u64 {
    fnv_bytes(FNV_OFFSET, s.as_bytes())
}

// ------------------------------------------------------------------ parallel work queue
pub fn threads() -> usize {
    std::env::var("VERIF_THREADS")
        .ok()
        .and_then(|s| s.parse().ok())
        .unwrap_or_else(|| std::thread::available_parallelism().map(|n| n.get()).unwrap_or(8))
        .max(1)
}

/// Runs `f(item_index, &item)` for every item on a pool of threads (dynamic work queue, items taken in order),
/// returns the results in item order. A panic in `f` is propagated (machinery error).
pub fn par_map<I: Sync, R: Send>(items: &[I], f: impl Fn(usize, &I) -> R + Sync) -> Vec<R> {
    let next = AtomicUsize::new(0);
    let results: Mutex<Vec<Option<R>>> = Mutex::new((0..items.len()).map(|_| None).collect());
    let nthreads = threads().min(items.len().max(1));
    std::thread::scope(|s| {
        for _ in 0..nthreads {
            s.spawn(|| loop {
                let i = next.fetch_add(1, Ordering::SeqCst);
                if i >= items.len() {
                    break;
                }
                let r = f(i, &items[i]);
                results.lock().unwrap()[i] = Some(r);
            });
        }
    });
    results.into_inner().unwrap().into_iter().map(|x| x.expect("worker died")).collect()
}

pub fn log2(x: f64) -> f64 {
    x.ln() / std::f64::consts::LN_2
}

pub fn is_prime(n: u64) -> bool {
    if n < 2 {
        return false;
    }
    for p in [2u64, 3, 5, 7, 11, 13, 17, 19, 23, 29, 31, 37] {
        if n % p == 0 {
            return n == p;
        }
    }
    let mut d = n - 1;
    let mut r = 0;
    while d % 2 == 0 {
        d /= 2;
        r += 1;
    }
    'outer: for a in [2u64, 3, 5, 7, 11, 13, 17, 19, 23, 29, 31, 37] {
        let mut x = powmod(a % n, d, n);
        if x == 1 || x == n - 1 {
            continue;
        }
        for _ in 0..r - 1 {
            x = mulmod(x, x, n);
            if x == n - 1 {
                continue 'outer;
            }
        }
        return false;
    }
    true
}
#[inline]
pub fn mulmod(a: u64, b: u64, m: u64) -> u64 {
    ((a as u128 * b as u128) % m as u128) as u64
}
pub fn powmod(mut a: u64, mut e: u64, m: u64) -> u64 {
    let mut r = 1u64 % m;
    a %= m;
    while e > 0 {
        if e & 1 == 1 {
            r = mulmod(r, a, m);
        }
        a = mulmod(a, a, m);
        e >>= 1;
    }
    r
}
pub fn gcd(a: u64, b: u64) -> u64 {
    if b == 0 {
        a
    } else {
        gcd(b, a % b)
    }
}
pub fn lcm(a: u64, b: u64) -> u64 {
    a / gcd(a, b) * b
}
/// prime factors (distinct) by trial division
pub fn prime_factors(mut n: u64) -> Vec<u64> {
    let mut f = Vec::new();
    let mut d = 2u64;
    while d * d <= n {
        if n % d == 0 {
            f.push(d);
            while n % d == 0 {
                n /= d;
            }
        }
        d += if d == 2 { 1 } else { 2 };
    }
    if n > 1 {
        f.push(n);
    }
    f
}
/// full factorisation with multiplicity
pub fn factorize(mut n: u64) -> Vec<(u64, u32)> {
    let mut f = Vec::new();
    let mut d = 2u64;
    while d * d <= n {
        if n % d == 0 {
            let mut c = 0;
            while n % d == 0 {
                n /= d;
                c += 1;
            }
            f.push((d, c));
        }
        d += if d == 2 { 1 } else { 2 };
    }
    if n > 1 {
        f.push((n, 1));
    }
    f
}
