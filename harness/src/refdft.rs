//! The reference model for C01/C02/...: a naive DFT with the index reduced in integers before any
//! floating-point work, twiddles tabulated once per n in double-double.
use crate::core::{Real, C};
use crate::dd::{sincos_2pi_frac, DD};
use rustfft::FftDirection;

pub struct Ref {
    pub n: usize,
    /// cos(2 pi t/n), sin(2 pi t/n), t in 0..n  (so forward W^t = c - i s, inverse = c + i s)
    pub cs: Vec<(DD, DD)>,
}

impl Ref {
    pub fn new(n: usize) -> Ref {
        let mut cs = Vec::with_capacity(n);
        // use the symmetry t -> n - t to halve the work: cos same, sin negated
        for t in 0..n {
            if t > n / 2 {
                let (c, s): (DD, DD) = cs[n - t];
                cs.push((c, -s));
            } else {
                cs.push(sincos_2pi_frac(t as u64, n as u64));
            }
        }
        Ref { n, cs }
    }
    /// twiddle W^t for the direction, as dd (re, im)
    #[inline]
    pub fn w(&self, t: usize, dir: FftDirection) -> (DD, DD) {
        let (c, s) = self.cs[t];
        match dir {
            FftDirection::Forward => (c, -s),
            FftDirection::Inverse => (c, s),
        }
    }
    /// Exact column for the impulse `amp * e_j`  (amp = 1 or i): out[k] = amp * W^(j k mod n). Returned as dd pairs.
    pub fn impulse_col(&self, j: usize, imag: bool, dir: FftDirection) -> Vec<(DD, DD)> {
        let n = self.n;
        let mut v = Vec::with_capacity(n);
        let mut idx = 0usize;
        for _k in 0..n {
            let (re, im) = self.w(idx, dir);
            v.push(if imag { (-im, re) } else { (re, im) });
            idx += j;
            if idx >= n {
                idx -= n;
            }
        }
        v
    }
    /// naive DFT of f64 data, accumulated in double-double (data exact, twiddles dd)
    pub fn dft_dd(&self, x: &[C<f64>], dir: FftDirection) -> Vec<(DD, DD)> {
        let n = self.n;
        assert_eq!(x.len(), n);
        let mut out = Vec::with_capacity(n);
        for k in 0..n {
            let mut re = DD::ZERO;
            let mut im = DD::ZERO;
            let mut idx = 0usize;
            for xj in x.iter() {
                let (wr, wi) = self.w(idx, dir);
                // (a + ib)(wr + i wi)
                re = re + (wr.mul_f64(xj.re) - wi.mul_f64(xj.im));
                im = im + (wi.mul_f64(xj.re) + wr.mul_f64(xj.im));
                idx += k;
                if idx >= n {
                    idx -= n;
                }
            }
            out.push((re, im));
        }
        out
    }
    /// naive DFT in plain f64 with f64-rounded twiddles (reference for f32 results)
    pub fn dft_f64(&self, x: &[C<f64>], dir: FftDirection) -> Vec<(DD, DD)> {
        let n = self.n;
        assert_eq!(x.len(), n);
        let w: Vec<C<f64>> = (0..n)
            .map(|t| {
                let (r, i) = self.w(t, dir);
                C::new(r.to_f64(), i.to_f64())
            })
            .collect();
        let mut out = Vec::with_capacity(n);
        for k in 0..n {
            // two accumulators halves the error constant a little; plain sums are ample against eps_f32
            let mut acc = C::new(0.0f64, 0.0);
            let mut idx = 0usize;
            for xj in x.iter() {
                acc += *xj * w[idx];
                idx += k;
                if idx >= n {
                    idx -= n;
                }
            }
            out.push((DD::new(acc.re), DD::new(acc.im)));
        }
        out
    }
    /// sparse input: sum of spikes (position, value) -> exact spectrum in O(n * spikes)
    pub fn sparse_dft(&self, spikes: &[(usize, C<f64>)], dir: FftDirection) -> Vec<(DD, DD)> {
        let n = self.n;
        let mut out = vec![(DD::ZERO, DD::ZERO); n];
        for &(j, a) in spikes {
            let mut idx = 0usize;
            for o in out.iter_mut() {
                let (wr, wi) = self.w(idx, dir);
                o.0 = o.0 + (wr.mul_f64(a.re) - wi.mul_f64(a.im));
                o.1 = o.1 + (wi.mul_f64(a.re) + wr.mul_f64(a.im));
                idx += j % n;
                if idx >= n {
                    idx -= n;
                }
            }
        }
        out
    }
}

/// L2 error ||out - ref|| and ||ref||, both computed after scaling by max|ref| so that wide-dynamic-range
/// data cannot overflow the squares. Returns (err_norm, ref_norm) in original units.
pub fn l2_error<T: Real>(out: &[C<T>], reference: &[(DD, DD)]) -> (f64, f64) {
    let m = reference.iter().fold(0.0f64, |m, r| m.max(r.0.hi.abs()).max(r.1.hi.abs()));
    let sc = if m > 0.0 && m.is_finite() { 1.0 / m } else { 1.0 };
    let mut e2 = 0.0f64;
    let mut r2 = 0.0f64;
    for (o, r) in out.iter().zip(reference) {
        let dr = ((o.re.to64() - r.0.hi) - r.0.lo) * sc;
        let di = ((o.im.to64() - r.1.hi) - r.1.lo) * sc;
        e2 += dr * dr + di * di;
        let (a, b) = (r.0.hi * sc, r.1.hi * sc);
        r2 += a * a + b * b;
    }
    if !e2.is_finite() {
        return (f64::INFINITY, r2.sqrt() / sc);
    }
    (e2.sqrt() / sc, r2.sqrt() / sc)
}

pub fn all_finite<T: Real>(v: &[C<T>]) -> bool {
    v.iter().all(|c| c.re.to64().is_finite() && c.im.to64().is_finite())
}

pub fn norm2(v: &[C<f64>]) -> f64 {
    // scaled to avoid overflow with 1e300-sized entries
    let m = v.iter().fold(0.0f64, |m, c| m.max(c.re.abs()).max(c.im.abs()));
    if m == 0.0 || !m.is_finite() {
        return m;
    }
    let s: f64 = v.iter().map(|c| (c.re / m) * (c.re / m) + (c.im / m) * (c.im / m)).sum();
    s.sqrt() * m
}
