//! Double-double arithmetic (~106 bits), used (a) for the reference DFT twiddle table and accumulation,
//! (b) as a higher-precision *element type* for C14.
use num_traits::{FromPrimitive, Num, One, Signed, Zero};
use std::ops::{Add, Div, Mul, Neg, Rem, Sub};

#[derive(Copy, Clone, Debug, PartialEq, PartialOrd, Default)]
pub struct DD {
    pub hi: f64,
    pub lo: f64,
}

#[inline]
fn two_sum(a: f64, b: f64) -> (f64, f64) {
    let s = a + b;
    let bb = s - a;
    let e = (a - (s - bb)) + (b - bb);
    (s, e)
}
#[inline]
fn quick_two_sum(a: f64, b: f64) -> (f64, f64) {
    let s = a + b;
    let e = b - (s - a);
    (s, e)
}
#[inline]
fn two_prod(a: f64, b: f64) -> (f64, f64) {
    let p = a * b;
    let e = a.mul_add(b, -p);
    (p, e)
}

impl DD {
    pub const ZERO: DD = DD { hi: 0.0, lo: 0.0 };
    pub const ONE: DD = DD { hi: 1.0, lo: 0.0 };
    /// pi to ~107 bits
    pub const PI: DD = DD { hi: 3.141592653589793116e+00, lo: 1.224646799147353207e-16 };
    #[inline]
    pub fn new(x: f64) -> DD {
        DD { hi: x, lo: 0.0 }
    }
    #[inline]
    pub fn to_f64(self) -> f64 {
        self.hi + self.lo
    }
    #[inline]
    pub fn mul_f64(self, b: f64) -> DD {
        let (p, e) = two_prod(self.hi, b);
        let e = e + self.lo * b;
        let (hi, lo) = quick_two_sum(p, e);
        DD { hi, lo }
    }
    #[inline]
    pub fn div_f64(self, b: f64) -> DD {
        self / DD::new(b)
    }
    pub fn abs(self) -> DD {
        if self.hi < 0.0 || (self.hi == 0.0 && self.lo < 0.0) {
            -self
        } else {
            self
        }
    }
    pub fn sqrt(self) -> DD {
        if self.hi <= 0.0 {
            return DD::ZERO;
        }
        let x = 1.0 / self.hi.sqrt();
        let ax = self.hi * x;
        let axd = DD::new(ax);
        let diff = self - axd * axd;
        DD::new(ax) + DD::new(diff.hi * (x * 0.5))
    }
    pub fn from_u64(v: u64) -> DD {
        let hi = (v >> 32) as f64 * 4294967296.0;
        let lo = (v & 0xffff_ffff) as f64;
        DD::new(hi) + DD::new(lo)
    }
}
impl Add for DD {
    type Output = DD;
    #[inline]
    fn add(self, b: DD) -> DD {
        let (s, e) = two_sum(self.hi, b.hi);
        let (t, f) = two_sum(self.lo, b.lo);
        let e = e + t;
        let (s, e) = quick_two_sum(s, e);
        let e = e + f;
        let (hi, lo) = quick_two_sum(s, e);
        DD { hi, lo }
    }
}
impl Neg for DD {
    type Output = DD;
    #[inline]
    fn neg(self) -> DD {
        DD { hi: -self.hi, lo: -self.lo }
    }
}
impl Sub for DD {
    type Output = DD;
    #[inline]
    fn sub(self, b: DD) -> DD {
        self + (-b)
    }
}
impl Mul for DD {
    type Output = DD;
    #[inline]
    fn mul(self, b: DD) -> DD {
        let (p, e) = two_prod(self.hi, b.hi);
        let e = e + (self.hi * b.lo + self.lo * b.hi);
        let (hi, lo) = quick_two_sum(p, e);
        DD { hi, lo }
    }
}
impl Div for DD {
    type Output = DD;
    fn div(self, b: DD) -> DD {
        let q1 = self.hi / b.hi;
        let r = self - b.mul_f64(q1);
        let q2 = r.hi / b.hi;
        let r = r - b.mul_f64(q2);
        let q3 = r.hi / b.hi;
        let (hi, lo) = quick_two_sum(q1, q2);
        DD { hi, lo } + DD::new(q3)
    }
}
impl Rem for DD {
    type Output = DD;
    fn rem(self, _b: DD) -> DD {
        panic!("DD: `%` is not a ring operation a transform may use")
    }
}
impl Zero for DD {
    fn zero() -> DD {
        DD::ZERO
    }
    fn is_zero(&self) -> bool {
        self.hi == 0.0 && self.lo == 0.0
    }
}
impl One for DD {
    fn one() -> DD {
        DD::ONE
    }
}
impl Num for DD {
    type FromStrRadixErr = ();
    fn from_str_radix(_s: &str, _r: u32) -> Result<DD, ()> {
        Err(())
    }
}
impl Signed for DD {
    fn abs(&self) -> DD {
        DD::abs(*self)
    }
    fn abs_sub(&self, other: &DD) -> DD {
        let d = *self - *other;
        if d.hi < 0.0 {
            DD::ZERO
        } else {
            d
        }
    }
    fn signum(&self) -> DD {
        if self.hi > 0.0 {
            DD::ONE
        } else if self.hi < 0.0 {
            -DD::ONE
        } else {
            DD::ZERO
        }
    }
    fn is_positive(&self) -> bool {
        self.hi > 0.0
    }
    fn is_negative(&self) -> bool {
        self.hi < 0.0
    }
}
impl FromPrimitive for DD {
    fn from_i64(n: i64) -> Option<DD> {
        Some(if n < 0 { -DD::from_u64(n.unsigned_abs()) } else { DD::from_u64(n as u64) })
    }
    fn from_u64(n: u64) -> Option<DD> {
        Some(DD::from_u64(n))
    }
    /// A constant handed over as f64. Inside a twiddle context (hook H1) the constant is *recomputed* at
    /// full double-double precision from (index, fft_len); outside it only sqrt(1/2) is upgraded.
    fn from_f64(x: f64) -> Option<DD> {
        Some(dd_constant(x))
    }
    fn from_f32(x: f32) -> Option<DD> {
        Some(DD::new(x as f64))
    }
}

thread_local! {
    /// When true (default), `DD::from_f64` upgrades recognised constants to full precision.
    pub static DD_UPGRADE: std::cell::Cell<bool> = std::cell::Cell::new(true);
    /// Count of constants that were *not* recognised (kept at f64 precision)
    pub static DD_PLAIN_CONSTS: std::cell::Cell<u64> = std::cell::Cell::new(0);
}

fn dd_constant(x: f64) -> DD {
    if !DD_UPGRADE.with(|c| c.get()) {
        return DD::new(x);
    }
    if let Some((index, len, nth)) = rustfft::verif_hooks::twiddle_query() {
        let (c, s) = sincos_2pi_frac(index as u64 % len as u64, len as u64);
        // compute_twiddle asks for cos(-a), sin(-a)
        let v = if nth == 0 { c } else { -s };
        if (v.hi - x).abs() <= 1e-9 {
            return v;
        }
        DD_PLAIN_CONSTS.with(|c| c.set(c.get() + 1));
        return DD::new(x);
    }
    let r = std::f64::consts::FRAC_1_SQRT_2;
    if (x.abs() - r).abs() < 1e-15 {
        let v = DD::new(0.5).sqrt();
        return if x < 0.0 { -v } else { v };
    }
    if x == x.trunc() || x == 0.5 || x == -0.5 || x == 0.25 {
        return DD::new(x);
    }
    DD_PLAIN_CONSTS.with(|c| c.set(c.get() + 1));
    DD::new(x)
}

/// (cos, sin) of 2*pi*t/n for integers 0 <= t < n, accurate to ~1e-31.
/// Exact octant reduction in integers, Taylor series in double-double on [0, pi/4].
pub fn sincos_2pi_frac(t: u64, n: u64) -> (DD, DD) {
    assert!(n > 0 && t < n);
    // angle = (pi/4) * (8t/n) ; 8t = q*n + r
    let t8 = t as u128 * 8;
    let q = (t8 / n as u128) as u64; // 0..7
    let r = (t8 % n as u128) as u64;
    // phi in [0, pi/4]: even octant -> phi = (pi/4) r/n measured from q*pi/4 ; odd octant -> phi = (pi/4)(n-r)/n measured back from (q+1)*pi/4
    let (num, odd) = if q % 2 == 0 { (r, false) } else { (n - r, true) };
    let phi = (DD::PI.mul_f64(0.25) * DD::from_u64(num)) / DD::from_u64(n);
    let (c, s) = sincos_taylor(phi);
    // base multiple of pi/4: even: q ; odd: q+1 with angle = base - phi
    // even q: angle = q*pi/4 + phi, q in {0,2,4,6} -> rotate by q/2 quarter turns
    // odd q: angle = (q+1)*pi/4 - phi, (q+1) in {2,4,6,8} -> quarter turns (q+1)/2, with -phi
    let (c0, s0, quarter) = if !odd { (c, s, q / 2) } else { (c, -s, (q + 1) / 2) };
    match quarter % 4 {
        0 => (c0, s0),
        1 => (-s0, c0),
        2 => (-c0, -s0),
        _ => (s0, -c0),
    }
}

fn sincos_taylor(x: DD) -> (DD, DD) {
    // x in [0, pi/4]
    if x.hi == 0.0 {
        return (DD::ONE, DD::ZERO);
    }
    let x2 = x * x;
    let mut sin = x;
    let mut cos = DD::ONE;
    let mut term_s = x;
    let mut term_c = DD::ONE;
    let mut k = 1.0f64;
    loop {
        // cos term: x^(2k)/(2k)!, sin term: x^(2k+1)/(2k+1)!
        term_c = -(term_c * x2).div_f64((2.0 * k - 1.0) * (2.0 * k));
        term_s = -(term_s * x2).div_f64((2.0 * k) * (2.0 * k + 1.0));
        cos = cos + term_c;
        sin = sin + term_s;
        if term_c.hi.abs() < 1e-36 && term_s.hi.abs() < 1e-36 {
            break;
        }
        k += 1.0;
        if k > 40.0 {
            break;
        }
    }
    (cos, sin)
}

/// Self-check of the trig oracle. Err => machinery error, never a verdict.
pub fn self_check() -> Result<(), String> {
    let mut worst_id = 0.0f64;
    let mut worst_libm = 0.0f64;
    let ns = [1u64, 2, 3, 4, 5, 7, 8, 12, 37, 64, 100, 257, 1000, 1021, 4096, 65537, 1 << 20, 999_983];
    for &n in &ns {
        let step = (n / 53).max(1);
        let mut t = 0;
        while t < n {
            let (c, s) = sincos_2pi_frac(t, n);
            let id = (c * c + s * s - DD::ONE).to_f64().abs();
            worst_id = worst_id.max(id);
            let a = 2.0 * std::f64::consts::PI * (t as f64) / (n as f64);
            worst_libm = worst_libm.max((c.to_f64() - a.cos()).abs()).max((s.to_f64() - a.sin()).abs());
            // addition theorem against angle 2t
            let t2 = (2 * t) % n;
            let (c2, s2) = sincos_2pi_frac(t2, n);
            let e1 = (c * c - s * s - c2).to_f64().abs();
            let e2 = ((c * s).mul_f64(2.0) - s2).to_f64().abs();
            worst_id = worst_id.max(e1).max(e2);
            t += step;
        }
    }
    if worst_id > 1e-30 {
        return Err(format!("dd trig identities off by {:e}", worst_id));
    }
    // libm's argument 2*pi*t/n is itself rounded (relative 2^-52 on an angle up to 2pi) => allow 2e-15
    if worst_libm > 2e-15 {
        return Err(format!("dd trig disagrees with libm by {:e}", worst_libm));
    }
    // exact values
    let (c, s) = sincos_2pi_frac(1, 8);
    let h = DD::new(0.5).sqrt();
    if (c - h).to_f64().abs() > 1e-31 || (s - h).to_f64().abs() > 1e-31 {
        return Err("dd trig: cos(pi/4) wrong".into());
    }
    let (c, s) = sincos_2pi_frac(1, 6);
    if (c - DD::new(0.5)).to_f64().abs() > 1e-31 || (s * s - DD::new(0.75)).to_f64().abs() > 1e-31 {
        return Err("dd trig: cos(pi/3) wrong".into());
    }
    Ok(())
}
