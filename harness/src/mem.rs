//! Memory monitor: caller buffers carved out of mmap'ed regions fenced by PROT_NONE guard pages, a fatal-signal
//! handler that reports the case being executed, and read-only protection for the immutable entry point's input.
use std::sync::atomic::{AtomicI64, Ordering};

#[allow(non_camel_case_types)]
type c_void = u8;
extern "C" {
    fn mmap(addr: *mut c_void, len: usize, prot: i32, flags: i32, fd: i32, off: i64) -> *mut c_void;
    fn mprotect(addr: *mut c_void, len: usize, prot: i32) -> i32;
    fn munmap(addr: *mut c_void, len: usize) -> i32;
    fn memfd_create(name: *const u8, flags: u32) -> i32;
    fn ftruncate(fd: i32, len: i64) -> i32;
    fn close(fd: i32) -> i32;
    fn signal(sig: i32, handler: usize) -> usize;
    fn write(fd: i32, buf: *const u8, n: usize) -> isize;
    fn _exit(code: i32) -> !;
}
const PROT_NONE: i32 = 0;
const PROT_READ: i32 = 1;
const PROT_WRITE: i32 = 2;
const MAP_PRIVATE: i32 = 2;
const MAP_ANONYMOUS: i32 = 0x20;
const MAP_SHARED: i32 = 1;
const MAP_FIXED: i32 = 0x10;
pub const PAGE: usize = 4096;

/// [guard page][usable pages ...][guard page]
pub struct Arena {
    base: *mut u8,
    total: usize,
    usable: *mut u8,
    usable_len: usize,
}
unsafe impl Send for Arena {}

#[derive(Copy, Clone, Debug, PartialEq, Eq)]
pub enum Place {
    /// the slice ends exactly where the trailing guard page begins (catches over-runs)
    EndFlush,
    /// the slice begins exactly where the leading guard page ends (catches under-runs)
    StartFlush,
    /// the slice ends one alignment unit before the trailing guard page, so that it STARTS at the least aligned
    /// address the element type permits (8 mod 16 for Complex<f64>, 4 mod 8 for Complex<f32>): heap buffers and the
    /// two flush placements are always 16-byte aligned, which hides aligned SIMD loads/stores on caller memory
    MinAligned,
}
impl Place {
    pub fn name(self) -> &'static str {
        match self {
            Place::EndFlush => "end",
            Place::StartFlush => "start",
            Place::MinAligned => "minaligned",
        }
    }
    pub const BOTH: [Place; 2] = [Place::EndFlush, Place::StartFlush];
    pub const ALL: [Place; 3] = [Place::EndFlush, Place::StartFlush, Place::MinAligned];
}

impl Arena {
    pub fn new(min_bytes: usize) -> Arena {
        let usable_len = ((min_bytes + PAGE - 1) / PAGE).max(1) * PAGE;
        let total = usable_len + 2 * PAGE;
        unsafe {
            let base = mmap(std::ptr::null_mut(), total, PROT_READ | PROT_WRITE, MAP_PRIVATE | MAP_ANONYMOUS, -1, 0);
            if base as isize == -1 || base.is_null() {
                panic!("mmap failed");
            }
            if mprotect(base, PAGE, PROT_NONE) != 0 || mprotect(base.add(PAGE + usable_len), PAGE, PROT_NONE) != 0 {
                panic!("mprotect failed");
            }
            Arena { base, total, usable: base.add(PAGE), usable_len }
        }
    }
    pub fn capacity_bytes(&self) -> usize {
        self.usable_len
    }
    /// A slice of `len` elements placed as requested. The memory is whatever the previous case left there;
    /// callers fill it. Panics (machinery error) if it does not fit.
    #[allow(clippy::mut_from_ref)]
    pub fn slice<T: Copy>(&self, len: usize, place: Place) -> &mut [T] {
        let bytes = len * std::mem::size_of::<T>();
        let al = std::mem::align_of::<T>();
        assert!(bytes + al <= self.usable_len, "arena too small: {} > {}", bytes + al, self.usable_len);
        assert!(PAGE % std::mem::align_of::<T>() == 0 && std::mem::size_of::<T>() % std::mem::align_of::<T>() == 0);
        unsafe {
            let p = match place {
                Place::EndFlush => self.usable.add(self.usable_len - bytes),
                Place::StartFlush => self.usable,
                Place::MinAligned => self.usable.add(self.usable_len - bytes - al),
            };
            std::slice::from_raw_parts_mut(p as *mut T, len)
        }
    }
    /// (un)protect the pages that hold the `len`-element slice placed at `place` (only those: mprotect cost is per page)
    pub fn set_readonly<T>(&self, len: usize, place: Place, ro: bool) {
        let bytes = len * std::mem::size_of::<T>();
        if bytes == 0 {
            return;
        }
        unsafe {
            let (start, span) = match place {
                Place::EndFlush => {
                    let off = (self.usable_len - bytes) / PAGE * PAGE;
                    (self.usable.add(off), self.usable_len - off)
                }
                Place::StartFlush => (self.usable, (bytes + PAGE - 1) / PAGE * PAGE),
                Place::MinAligned => {
                    let off = (self.usable_len - bytes - std::mem::align_of::<T>()) / PAGE * PAGE;
                    (self.usable.add(off), self.usable_len - off)
                }
            };
            if mprotect(start, span, if ro { PROT_READ } else { PROT_READ | PROT_WRITE }) != 0 {
                panic!("mprotect failed");
            }
        }
    }
}
impl Drop for Arena {
    fn drop(&mut self) {
        unsafe {
            munmap(self.base, self.total);
        }
    }
}

/// The same physical pages mapped twice: a permanently READ-ONLY view fenced by guard pages (handed to the code
/// under test) and a writable alias (used by the harness to fill it). No per-call mprotect is needed.
pub struct DualArena {
    ro_base: *mut u8,
    total: usize,
    ro: *mut u8,
    rw: *mut u8,
    usable_len: usize,
}
unsafe impl Send for DualArena {}
impl DualArena {
    pub fn new(min_bytes: usize) -> DualArena {
        let usable_len = ((min_bytes + PAGE - 1) / PAGE).max(1) * PAGE;
        let total = usable_len + 2 * PAGE;
        unsafe {
            let fd = memfd_create(b"rfv-input\0".as_ptr(), 0);
            if fd < 0 || ftruncate(fd, usable_len as i64) != 0 {
                panic!("memfd_create/ftruncate failed");
            }
            let ro_base = mmap(std::ptr::null_mut(), total, PROT_NONE, MAP_PRIVATE | MAP_ANONYMOUS, -1, 0);
            if ro_base as isize == -1 {
                panic!("mmap reservation failed");
            }
            let ro = mmap(ro_base.add(PAGE), usable_len, PROT_READ, MAP_SHARED | MAP_FIXED, fd, 0);
            if ro as isize == -1 || ro != ro_base.add(PAGE) {
                panic!("mmap ro view failed");
            }
            let rw = mmap(std::ptr::null_mut(), usable_len, PROT_READ | PROT_WRITE, MAP_SHARED, fd, 0);
            if rw as isize == -1 {
                panic!("mmap rw alias failed");
            }
            close(fd);
            DualArena { ro_base, total, ro, rw, usable_len }
        }
    }
    fn offset<T>(&self, len: usize, place: Place) -> usize {
        let bytes = len * std::mem::size_of::<T>();
        let al = std::mem::align_of::<T>();
        assert!(bytes + al <= self.usable_len, "dual arena too small: {} > {}", bytes + al, self.usable_len);
        match place {
            Place::EndFlush => self.usable_len - bytes,
            Place::StartFlush => 0,
            Place::MinAligned => self.usable_len - bytes - al,
        }
    }
    /// the read-only view (what the transform receives)
    pub fn view<T: Copy>(&self, len: usize, place: Place) -> &[T] {
        unsafe { std::slice::from_raw_parts(self.ro.add(self.offset::<T>(len, place)) as *const T, len) }
    }
    /// the writable alias of the same elements (for the harness only)
    #[allow(clippy::mut_from_ref)]
    pub fn alias<T: Copy>(&self, len: usize, place: Place) -> &mut [T] {
        unsafe { std::slice::from_raw_parts_mut(self.rw.add(self.offset::<T>(len, place)) as *mut T, len) }
    }
}
impl Drop for DualArena {
    fn drop(&mut self) {
        unsafe {
            munmap(self.ro_base, self.total);
            munmap(self.rw, self.usable_len);
        }
    }
}

// ------------------------------------------------------------------ fatal-signal reporting
pub const NFIELDS: usize = 12;
static CUR: [AtomicI64; NFIELDS] = [
    AtomicI64::new(-1),
    AtomicI64::new(-1),
    AtomicI64::new(-1),
    AtomicI64::new(-1),
    AtomicI64::new(-1),
    AtomicI64::new(-1),
    AtomicI64::new(-1),
    AtomicI64::new(-1),
    AtomicI64::new(-1),
    AtomicI64::new(-1),
    AtomicI64::new(-1),
    AtomicI64::new(-1),
];

/// publish the case about to be executed (read by the signal handler)
#[inline]
pub fn set_current(fields: &[i64; NFIELDS]) {
    for (a, f) in CUR.iter().zip(fields) {
        a.store(*f, Ordering::Relaxed);
    }
    std::sync::atomic::fence(Ordering::SeqCst);
}

fn fmt_i64(mut v: i64, buf: &mut [u8], pos: &mut usize) {
    if v < 0 {
        buf[*pos] = b'-';
        *pos += 1;
        v = -v;
    }
    let mut tmp = [0u8; 24];
    let mut n = 0;
    if v == 0 {
        tmp[0] = b'0';
        n = 1;
    }
    while v > 0 {
        tmp[n] = b'0' + (v % 10) as u8;
        v /= 10;
        n += 1;
    }
    for i in (0..n).rev() {
        buf[*pos] = tmp[i];
        *pos += 1;
    }
}

extern "C" fn on_fatal(sig: i32) {
    // async-signal-safe: no allocation, raw write, _exit
    let mut buf = [0u8; 400];
    let mut pos = 0;
    for b in b"CRASH sig=" {
        buf[pos] = *b;
        pos += 1;
    }
    fmt_i64(sig as i64, &mut buf, &mut pos);
    for a in CUR.iter() {
        buf[pos] = b' ';
        pos += 1;
        fmt_i64(a.load(Ordering::Relaxed), &mut buf, &mut pos);
    }
    buf[pos] = b'\n';
    pos += 1;
    unsafe {
        write(1, buf.as_ptr(), pos);
        _exit(86);
    }
}

pub fn install_fatal_handlers() {
    unsafe {
        for sig in [11, 7, 6, 4, 8] {
            // SIGSEGV, SIGBUS, SIGABRT, SIGILL, SIGFPE
            signal(sig, on_fatal as usize);
        }
    }
}
