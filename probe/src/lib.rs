//! Compile-time obligations that C11's own statement contains: planners and transform instances are Send + Sync.
//! This crate is only ever type-checked (`cargo check`); a failure here, and only here, is a C11 violation.
#![allow(dead_code)]
use rustfft::algorithm::butterflies::*;
use rustfft::algorithm::*;
use rustfft::*;
use std::sync::Arc;

fn both<T: Send + Sync>() {}
fn send<T: Send>() {}

fn obligations() {
    both::<Arc<dyn Fft<f32>>>();
    both::<Arc<dyn Fft<f64>>>();
    both::<Box<dyn Fft<f64>>>();
    both::<FftPlanner<f32>>();
    both::<FftPlanner<f64>>();
    both::<FftPlannerScalar<f32>>();
    both::<FftPlannerScalar<f64>>();
    both::<FftPlannerSse<f32>>();
    both::<FftPlannerSse<f64>>();
    both::<FftPlannerAvx<f32>>();
    both::<FftPlannerAvx<f64>>();
    both::<FftPlannerNeon<f32>>();
    both::<FftPlannerWasmSimd<f64>>();
    both::<FftDirection>();
    both::<Dft<f32>>();
    both::<Dft<f64>>();
    both::<Radix4<f64>>();
    both::<Radix3<f64>>();
    both::<MixedRadix<f64>>();
    both::<MixedRadixSmall<f64>>();
    both::<GoodThomasAlgorithm<f64>>();
    both::<GoodThomasAlgorithmSmall<f64>>();
    both::<RadersAlgorithm<f64>>();
    both::<BluesteinsAlgorithm<f64>>();
    both::<Radix4<f32>>();
    both::<MixedRadix<f32>>();
    both::<RadersAlgorithm<f32>>();
    both::<BluesteinsAlgorithm<f32>>();
    both::<Butterfly1<f64>>();
    both::<Butterfly2<f64>>();
    both::<Butterfly3<f64>>();
    both::<Butterfly4<f64>>();
    both::<Butterfly5<f64>>();
    both::<Butterfly6<f64>>();
    both::<Butterfly7<f64>>();
    both::<Butterfly8<f64>>();
    both::<Butterfly9<f64>>();
    both::<Butterfly11<f64>>();
    both::<Butterfly12<f64>>();
    both::<Butterfly13<f64>>();
    both::<Butterfly16<f64>>();
    both::<Butterfly17<f64>>();
    both::<Butterfly19<f64>>();
    both::<Butterfly23<f64>>();
    both::<Butterfly24<f64>>();
    both::<Butterfly27<f64>>();
    both::<Butterfly29<f64>>();
    both::<Butterfly31<f64>>();
    both::<Butterfly32<f64>>();
    both::<Butterfly8<f32>>();
    both::<Butterfly32<f32>>();
}

/// the usage pattern of examples/concurrency.rs must type-check: a planned transform moved into spawned threads
fn usage() {
    let mut planner = FftPlanner::<f32>::new();
    let fft = planner.plan_fft_forward(100);
    let handles: Vec<_> = (0..2)
        .map(|_| {
            let f = Arc::clone(&fft);
            std::thread::spawn(move || {
                let mut buf = vec![num_complex::Complex::new(0.0f32, 0.0); 100];
                f.process(&mut buf);
            })
        })
        .collect();
    for h in handles {
        h.join().unwrap();
    }
    send::<FftPlanner<f64>>();
    std::thread::spawn(move || {
        let _p = planner;
    });
}
