#!/bin/bash
# Builds every harness flavour from files on disk only (offline). Safe to re-run.
set -u
ROOT="$(cd "$(dirname "${BASH_SOURCE[0]}")" && pwd)"
export CARGO_NET_OFFLINE=true
mkdir -p "$ROOT/target" "$ROOT/evidence"
rc=0
build() { # flavour profile features...
  local fl="$1" profile="$2"; shift 2
  ( cd "$ROOT/harness" && RUSTFLAGS="--cfg rustfft_verif" CARGO_TARGET_DIR="$ROOT/target/$fl" cargo build --offline --profile "$profile" "$@" ) >"$ROOT/target/build-$fl.log" 2>&1
  local r=$?
  [ $r -ne 0 ] && { echo "setup: build $fl failed"; tail -30 "$ROOT/target/build-$fl.log"; }
  return $r
}
pids=()
build rel release & pids+=($!)
build dbg dbg & pids+=($!)
build feat-default release --no-default-features --features "avx sse" & pids+=($!)
for p in "${pids[@]}"; do wait "$p" || rc=2; done
pids=()
build feat-sse release --no-default-features --features "sse" & pids+=($!)
build feat-avx release --no-default-features --features "avx" & pids+=($!)
build feat-none release --no-default-features & pids+=($!)
for p in "${pids[@]}"; do wait "$p" || rc=2; done
"$ROOT/target/rel/release/rfv" selfcheck || rc=2
exit $rc
