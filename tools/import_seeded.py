#!/usr/bin/env python3
"""tools/import_seeded.py <outdir> <variant-letter> <base-description>
Copies confirmed seeded changes delivered under <outdir>/Cxx/{patch.diff,demo.rs,meta.json,confirm.json} into
/verif/seeded/Cxx<letter>/, adding a patch_head.diff (ported onto /repo HEAD) when the original does not apply cleanly."""
import json, os, shutil, subprocess, sys, tempfile
out, letter, base = sys.argv[1], sys.argv[2], sys.argv[3]
for pid in sorted(os.listdir(out)):
    d = os.path.join(out, pid)
    if not (pid.startswith('C') and os.path.isfile(os.path.join(d, 'confirm.json'))):
        continue
    conf = json.load(open(os.path.join(d, 'confirm.json')))
    if not conf.get('confirmed'):
        print(pid, 'NOT confirmed, skipped'); continue
    m = json.load(open(os.path.join(d, 'meta.json')))
    dst = f'/verif/seeded/{pid}{letter}'
    os.makedirs(dst, exist_ok=True)
    shutil.copy(os.path.join(d, 'patch.diff'), dst + '/patch.diff')
    shutil.copy(os.path.join(d, 'demo.rs'), dst + '/demo.rs')
    applies = subprocess.run(['git', '-C', '/repo', 'apply', '--check', dst + '/patch.diff'], capture_output=True).returncode == 0
    apply_note = 'git -C /repo apply patch.diff'
    if not applies:
        wt = tempfile.mkdtemp(prefix='imp', dir='/tmp')
        subprocess.run(['git', '-C', '/repo', 'worktree', 'add', '-f', '--detach', wt, 'HEAD', '-q'], check=True)
        r = subprocess.run(f'cd {wt} && patch -p1 -s --no-backup-if-mismatch -F3 < {dst}/patch.diff && git diff > {dst}/patch_head.diff', shell=True)
        subprocess.run(['git', '-C', '/repo', 'worktree', 'remove', '--force', wt])
        apply_note = 'git -C /repo apply patch_head.diff (ported onto the hooked tree; patch.diff is the original against the un-hooked base)' if r.returncode == 0 else 'DOES NOT APPLY'
    meta = {
        'property': pid, 'variant': letter, 'breaks': pid,
        'summary': m.get('summary', ''), 'needs_to_manifest': m.get('needs_to_manifest', ''),
        'why_existing_tests_miss': m.get('why_existing_tests_miss', ''),
        'origin': f'fresh sub-agent given only the property text and a scratch worktree ({base}, no hooks, nothing from /verif)',
        'confirmed_by_me': {'how': 'tools/confirm_seeded.sh in a scratch worktree of /repo HEAD: cargo test --offline with the change (repository suite), demo with the change, demo without the change',
                            'suite_with_change': conf['suite_with_change'], 'demo_with_change': conf['demo_with_change'], 'demo_without_change': conf['demo_without_change']},
        'apply': apply_note,
    }
    json.dump(meta, open(dst + '/meta.json', 'w'), indent=1)
    print(pid + letter, 'imported;', apply_note)
