#!/usr/bin/env python3
"""tools/results_md.py <results.tsv> [<results2.tsv> ...]  -> writes /verif/seeded/RESULTS.md
Each results file is the output of tools/matrix.sh (patch, check, exit, violation lines, first message).
The patch column is '<dir>/<file>'; <dir> is the seeded id (C07c) or, for deliveries that were run before they were
imported, 'Cxx' -- then the round letter is given by a '#round=<letter>' line that precedes the block in the file."""
import json, os, sys, collections
rows = collections.OrderedDict()   # (id, check) -> (rc, nv, what)
for f in sys.argv[1:]:
    letter = ''
    for line in open(f):
        line = line.rstrip('\n')
        if line.startswith('#round='):
            letter = line.split('=', 1)[1].strip(); continue
        parts = line.split('\t')
        if len(parts) < 4:
            continue
        patch, check, rc, nv = parts[:4]
        what = parts[4].strip() if len(parts) > 4 else ''
        d = patch.split('/')[0]
        name = patch.split('/')[1] if '/' in patch else patch
        if d == 'mutants':
            sid = name.replace('.diff', '')
        elif len(d) == 3:
            sid = d + letter
        else:
            sid = d
        rows[(sid, check)] = (int(rc), int(nv), what.replace('what: ', ''))
ids = []
for (sid, _c) in rows:
    if sid not in ids:
        ids.append(sid)
def meta(sid):
    p = f'/verif/seeded/{sid}/meta.json'
    if os.path.isfile(p):
        return json.load(open(p))
    return None
out = []
out.append('# Detection matrix: seeded changes and hand-made mutants\n')
out.append('Produced by `tools/matrix.sh` (a scratch copy of /verif against a scratch worktree of /repo HEAD with ONE change applied) and')
out.append('`tools/results_md.py`. Quick tier unless noted. `exit 1` = the check printed VIOLATION lines; `exit 0` = silent. A change is')
out.append('*detected* when the quick check of the property it was written against exits 1; other checks that also report it are listed.')
out.append('Rounds: a, b = round 1 (previous session, re-run results in DESIGN §10.5); c = round 2; d = round 3 (asked for the hardest')
out.append('genuine violation the agent could construct).\n')
out.append('| change | breaks | what it is (first sentence of the author\'s summary) | own check | other checks run | first message of the own check |')
out.append('|---|---|---|---|---|---|')
missed = []
for sid in ids:
    m = meta(sid)
    prop = m['property'] if m else ('C' + sid.split('_c')[1][:2] if '_c' in sid else '?')
    summ = (m['summary'].split('. ')[0][:170] if m else 'hand-made mutant, see mutants/' + sid + '.diff').replace('|', '/')
    own = rows.get((sid, prop))
    others = [f'{c}:{"yes" if r[0] == 1 else "no"}' for (s, c), r in rows.items() if s == sid and c != prop]
    if own is None:
        own_txt, msg = 'not run', ''
    else:
        own_txt = 'DETECTED' if own[0] == 1 else ('machinery exit %d' % own[0] if own[0] >= 2 else 'missed')
        msg = own[2][:200].replace('|', '/')
        if own[0] != 1:
            missed.append(sid)
    out.append(f'| {sid} | {prop} | {summ} | {own_txt} | {" ".join(others)} | {msg} |')
out.append('')
out.append(f'Changes run: {len(ids)}. Not reported by their own property\'s quick check: {", ".join(missed) if missed else "none"}.')
open('/verif/seeded/RESULTS.md', 'w').write('\n'.join(out) + '\n')
print('\n'.join(out[-2:]))
