#!/usr/bin/env python3
"""Generates /verif/MANIFEST.json from the table below (keeps the file valid and consistent)."""
import json, os, sys
ROOT = os.path.dirname(os.path.dirname(os.path.abspath(__file__)))

HOOK_COMMITS = []  # filled from `git -C /repo log` by subject prefix "verif hooks:"
try:
    import subprocess
    out = subprocess.run(["git", "-C", "/repo", "log", "--format=%H %s"], capture_output=True, text=True).stdout
    HOOK_COMMITS = [l.split()[0] for l in out.splitlines() if " verif hooks:" in l]
except Exception:
    pass

A = "confspace (Engine A): bounded-exhaustive enumeration of configurations x call shapes x input bases, each executed on the real code against a reference model"
CHECKS = {
 "C01": dict(engine="confspace", cat="model_checking", ref="§2.1, §3 C01",
   technique="bounded-exhaustive execution of the real code over all configurations x the complete impulse basis, against a double-double reference DFT; exact finite-field execution of the generic code with a linearity/taint monitor",
   text="Every (planner, type, direction, entry point, n) in the stated range is executed on every vector of a complete real basis (2n impulses) plus structured vectors and compared with a naive reference DFT; the portable generic code is additionally executed over a prime field where the DFT identity is checked as an equality and a tag monitor proves the executed circuit linear and data-oblivious, which is what turns 'basis' into 'all inputs'.",
   note="Trusted: the reference DFT (own double-double sincos, self-checked), hook H1 (twiddle context) for the field image, the ring homomorphism argument of DESIGN §2.1; SIMD float code is assumed data-oblivious (backed by dense vectors). Lengths above the stated bounds are not covered."),
 "C02": dict(engine="confspace", cat="model_checking", ref="§2.1, §3 C02",
   technique="bounded-exhaustive execution over all configurations x a fixed finite input alphabet, error measured against a double-double naive DFT",
   text="For every configuration and n in range, every vector of the STRUCT alphabet and the impulse basis is transformed by the real code and the relative L2 error against a double-double reference is compared with 16*eps*log2(2n). Exhaustive over configurations and over the stated alphabet, not over all inputs (rounding error is not linear in the input).",
   note="Trusted: the double-double reference. Closed-form spectra above the O(n^2) range add one eps of slack for the single rounding of the input."),
}
NOT_YET = {}
NOT_APPLICABLE = {
 "C16": "decided by the Rust type checker over a witness crate; there is no execution, state or schedule to enumerate, so model checking has nothing to explore (DESIGN §3 C16)",
}
ALL = ["C%02d" % i for i in range(1, 17)]

def main():
    checks = []
    for pid in ALL:
        if pid in CHECKS:
            c = CHECKS[pid]
            checks.append({
                "property_id": pid,
                "quick_cmd": f"./check {pid} --tier quick",
                "thorough_cmd": f"./check {pid} --tier thorough",
                "evidence_file": f"evidence/{pid}.json",
                "replay_cmd_template": f"./check {pid} --replay {{path}}",
                "engine": c["engine"],
                "level_claimed": {"category": c["cat"], "text": c["text"], "design_ref": c["ref"]},
                "level_note": c["note"],
                "technique": c["technique"],
            })
    na = []
    for pid in ALL:
        if pid in NOT_APPLICABLE:
            na.append({"property_id": pid, "reason": NOT_APPLICABLE[pid]})
        elif pid not in CHECKS:
            na.append({"property_id": pid, "reason": NOT_YET.get(pid, "check not built yet in this round (planned in DESIGN.md §3); not claimed until it exists and is quiet on the unchanged tree")})
    m = {
        "version": 1,
        "setup_cmd": "./setup.sh",
        "hooks": {
            "guard": "rustfft_verif",
            "enable": "RUSTFLAGS=\"--cfg rustfft_verif\" cargo build (harness crate /verif/harness has a path dependency on /repo; done by ./check on every run)",
            "baseline_off_cmd": "cd /repo && (cargo nextest run --workspace --no-fail-fast --offline --test-threads 8 || cargo test --workspace --no-fail-fast --offline)",
            "source_commits": HOOK_COMMITS,
            "add_only": True,
        },
        "engines": [
            {"name": "confspace", "path": "harness/src/floatlayer.rs, harness/src/exact.rs, harness/src/checks/", "serves_properties": [p for p in CHECKS if CHECKS[p]["engine"] == "confspace"], "kind_free_text": A},
            {"name": "planfsm", "path": "harness/src/checks/c10.rs", "serves_properties": [p for p in CHECKS if CHECKS[p]["engine"] == "planfsm"], "kind_free_text": "explicit-state BFS over the real planner's reachable cache states (request histories), invariants on every transition"},
            {"name": "sched", "path": "harness/src/sched.rs", "serves_properties": [p for p in CHECKS if CHECKS[p]["engine"] == "sched"], "kind_free_text": "hand-rolled stateless schedule explorer (iterative preemption bounding) on one shared transform instance"},
        ],
        "checks": checks,
        "not_applicable": na,
        "notes": "Technique family: model checking (bounded-exhaustive exploration of the real code). See DESIGN.md. Exit codes >= 2 are machinery failures, never verdicts.",
    }
    with open(os.path.join(ROOT, "MANIFEST.json"), "w") as f:
        json.dump(m, f, indent=1)
        f.write("\n")

if __name__ == "__main__":
    main()
