#!/usr/bin/env python3
"""Generates /verif/MANIFEST.json from the table below (keeps the file valid and consistent)."""
import json, os, sys
ROOT = os.path.dirname(os.path.dirname(os.path.abspath(__file__)))

HOOK_COMMITS = []  # filled from `git -C /repo log` by subject prefix "verif hooks:"
try:
    import subprocess
    out = subprocess.run(["git", "-C", "/repo", "log", "--format=%H %s"], capture_output=True, text=True).stdout
    HOOK_COMMITS = [l.split()[0] for l in out.splitlines() if " verif hooks:" in l]
except Exception:
    pass

A = "confspace (Engine A): bounded-exhaustive enumeration of configurations x call shapes x input bases, each executed on the real code against a reference model"
CHECKS = {
 "C01": dict(engine="confspace", cat="model_checking", ref="§2.1, §3 C01",
   technique="bounded-exhaustive execution of the real code over all configurations x the complete impulse basis, against a double-double reference DFT; exact finite-field execution of the generic code with a linearity/taint monitor",
   text="Every (planner, type, direction, entry point, n) in the stated range is executed on every vector of a complete real basis (2n impulses) plus structured vectors and compared with a naive reference DFT; the portable generic code is additionally executed over a prime field where the DFT identity is checked as an equality and a tag monitor proves the executed circuit linear and data-oblivious, which is what turns 'basis' into 'all inputs'.",
   note="Trusted: the reference DFT (own double-double sincos, self-checked), hook H1 (twiddle context) for the field image, the ring homomorphism argument of DESIGN §2.1; SIMD float code is assumed data-oblivious (backed by dense vectors). Lengths above the stated bounds are not covered. Added in session 3: one length of every plan class just above 2^16 and towards 2^20, and lengths in the millions (2^21, 2^22, 3*2^20, 5*2^18, 3^13, 5^9, 2*3^13) against directly evaluated spectra."),
 "C02": dict(engine="confspace", cat="model_checking", ref="§2.1, §3 C02",
   technique="bounded-exhaustive execution over all configurations x a fixed finite input alphabet, error measured against a double-double naive DFT",
   text="For every configuration and n in range, every vector of the STRUCT alphabet and the impulse basis is transformed by the real code and the relative L2 error against a double-double reference is compared with 16*eps*log2(2n). Exhaustive over configurations and over the stated alphabet, not over all inputs (rounding error is not linear in the input).",
   note="Trusted: the double-double reference. Closed-form spectra above the O(n^2) range add one eps of slack for the single rounding of the input. The alphabet contains non-representable constants and a DC-dominant vector (summation paths), and the lengths beyond 2^16 / in the millions of C01. A violation found this way on the unchanged tree (n=786433, constant input) was repaired in /repo (fix: e28b327)."),
 "C03": dict(engine="confspace", cat="model_checking", ref="§2.1 memory monitor, §3 C03",
   technique="bounded-exhaustive enumeration of call shapes executed in guard-paged buffers inside worker processes (release and debug-assertion builds, three buffer placements incl. the least aligned one); fatal signals attributed to the executing case; second monitor: the reduced shape set under valgrind memcheck (heap red zones around caller buffers AND the instance's own tables)",
   text="Every configuration x n x entry point x chunk count with exactly the advertised scratch, and the ill-shaped variants of each call, is executed with every caller buffer placed flush against a PROT_NONE page (both ends) and once at the least aligned address the element type permits, plus calls with thousands of chunks / several MiB per buffer. Any access outside the caller's slices faults and is reported with the case; the debug-assertion flavour adds the crate's own index assertions and std's unsafe-precondition checks.",
   note="Trusted: the kernel's page protection. Not seen: over-reads that stay inside the same caller buffer (not violations), reads past the instance's own tables outside the memcheck pass's reduced length set and the debug-flavour index checks."),
 "C04": dict(engine="confspace", cat="model_checking", ref="§3 C04",
   technique="exhaustive enumeration of lengths: construction for every n up to the bound on all planners, plan-only (hook H4) for every n < 2^20 / 2^22 with plan reports parsed and multiplied out",
   text="Every planner x type x direction x n up to N is asked to plan on a fresh planner and the result interrogated; every n below 2^20 (2^22 thorough) is planned without construction and the reported plan is parsed, checked to multiply out to n, and followed into Rader/Bluestein sub-plans.",
   note="Trusted: hook H4 reports the plan construction would use (bound to the code on the constructed range). n above 2^22 not covered except the huge re-plan-after-drop histories (2^21, 2^22; thorough up to 2^24)."),
 "C05": dict(engine="confspace", cat="model_checking", ref="§3 C05",
   technique="exhaustive enumeration of lengths with an operation-counting element type (exact counts, three inputs each) and the construction event log",
   text="The portable planner is instantiated with a counting element type; for every n in range and entry point the exact number of +,-,* for one chunk is measured on three inputs (must be equal) and compared with 64 n log2 n; every planner's construction log must contain no naive DFT above 32 and every advertised scratch length must be <= 12n+64.",
   note="Operation counts are those of the portable generic code. The thorough-tier cost-model extension of DESIGN §3 C05 is not built; plan-only recipes up to 2^22 are scanned for naive nodes instead, and the first prime of every class in every octave up to 2^20 / 2^22 is constructed for the scratch clause."),
 "C06": dict(engine="confspace", cat="model_checking", ref="§3 C06",
   technique="bounded-exhaustive execution of round trips through both directions obtained from one planner (both request orders), oracle-free; exact in a prime field for the generic code",
   text="For every planner, type, n in range, both orders of requesting the two directions from one planner, entry point and input of a fixed alphabet: inverse(forward(x)) and forward(inverse(x)) against n*x and inverse(x) against conj(forward(conj(x))), with allowances derived from C02; as equalities in F_p for the portable code.",
   note="Allowances are algebraic consequences of C02 (never stricter than the properties)."),
 "C07": dict(engine="confspace", cat="model_checking", ref="§3 C07",
   technique="bounded-exhaustive enumeration of chunk counts x positions x fillings of the other chunks, bitwise oracle; poison-tagged neighbours in a prime field",
   text="For every configuration, n, entry point, k in 1..8 and chunk position, the chunk inside a k-chunk buffer is compared with the same chunk alone (2B) and must be bit-identical under four alternative fillings of all other chunks (dense, NaN, Inf, huge); with scratch lengths between the advertised one and the buffer size (holding 2..k-1 chunks) every chunk must come out bit-identical to the exact-scratch call.",
   note="'Does not depend on' is decided bitwise."),
 "C08": dict(engine="confspace", cat="model_checking", ref="§3 C08",
   technique="full product of scratch lengths x initial scratch contents x initial output contents per (configuration, n, entry), bitwise oracle; poison-tag taint in a prime field",
   text="For every configuration, n, explicit-scratch entry point and k in {1,2,3}: 5 scratch lengths x 6 scratch contents x 6 output contents must all complete and give bit-identical finite outputs; in F_p poison-tagged scratch/output must never reach a result.",
   note="Float layer relies on NaN/Inf propagation; the exact layer's tags cover laundering in the portable code only."),
 "C09": dict(engine="confspace", cat="model_checking", ref="§3 C09",
   technique="full product of data / output / scratch length deviations per (configuration, n, entry) against the documented contract as a predicate",
   text="About 200 call shapes per instance and entry point are executed; must-succeed shapes must return with every chunk transformed, must-panic shapes must unwind.",
   note="Empty data and n = 0 are classified 'unspecified' and recorded as an observation."),
 "C10": dict(engine="planfsm", cat="model_checking", ref="§2.2, §3 C10",
   technique="explicit-state breadth-first search over the real planner's reachable cache states: (a) all request histories over a closed pool to a fixed depth, (b) sub-pools explored to closure (complete reachable state space), (c) long sweep histories; invariants I1-I7 on every transition",
   text="States are planner caches, represented by request histories and materialised by replay on a fresh planner; every transition calls the real plan_fft; states are deduplicated by a canonical form (cache keys + behaviour hash); invariants cover C01/C02/C06/C08 of the returned transform, two planners fed the same history, and survival after drop(planner).",
   note="Requests outside the closed pool are not covered; depth bound and closure reported per search; a run in which the AVX cache-rewrite path is never taken is reported as vacuous (exit 2)."),
 "C11": dict(engine="sched", cat="model_checking", ref="§2.3, §3 C11",
   technique="stateless schedule exploration with iterative preemption bounding on one shared transform instance (op-granular and chunk-granular scheduling points), all call histories of length <= 3, per-thread floating-point-environment monitor, Send/Sync probe crate",
   text="2-3 threads call one shared instance through different entry points on private buffers; every interleaving up to the completed preemption bound (reported per harness) must give bit-identical outputs to the same call made alone; all 4368 call sequences of length <= 3 over a 16-letter alphabet must be bit-identical to a first call on a fresh instance; every call is bracketed by a comparison of the thread's MXCSR control bits (state a call leaves behind in the thread); a probe crate carries the Send/Sync obligations.",
   note="State written and read with no scheduling point in between is invisible to the scheduler (source-scan note only). Memory-model effects are not modelled."),
 "C12": dict(engine="confspace", cat="model_checking", ref="§3 C12",
   technique="exhaustive enumeration of expression trees (depth <= 2, stated leaf sets) over the public constructors, each checked exactly in a prime field and in f32/f64 inside guard-paged buffers in worker processes; large instances (> 2^16 points) of every constructor; composites over an adversarial safe Fft implementation under the memory monitor",
   text="Every tree of the stated finite set that lies inside the constructors' documented preconditions is built and must not panic; C01/C07/C08 are decided exactly in F_p, C01/C03/C08/C09 in floats inside guard-paged buffers, release and debug-assertion builds.",
   note="The precondition model is hand-written from the documentation and the constructors' assert messages. Adversarial leaves (a safe user-written Fft whose len()/scratch answers change after construction) have no correctness oracle: only C03 (no fault, no unsafe-precondition abort) is decided for them."),
 "C13": dict(engine="confspace", cat="model_checking", ref="§3 C13",
   technique="full cross of 4 cargo feature builds x 4 emulated CPU levels (detection mask, hook H3): constructor Ok/Err against a model, then the C01/C02/C03/C04 sweeps under each configuration",
   text="All 16 (feature set, CPU level) configurations are run: dedicated planners must return Err exactly when their instruction set is unavailable or compiled out, the automatic planner must construct and pick the best back-end, and the float, construction and guard-page sweeps must hold in each.",
   note="Lower CPU levels are emulated by masking detection results; sound because masking only removes capabilities this CPU has."),
 "C14": dict(engine="confspace", cat="model_checking", ref="§3 C14",
   technique="exhaustive enumeration over instrumented element types: prime field (exact), double-double, bit-compatible newtypes, counting type; all n in range",
   text="For element types other than f32/f64 every SIMD planner must decline under every CPU level and the automatic planner must fall back to portable code; over a prime field the planned transform equals the DFT exactly for every n in range (complete basis) and uses no non-ring operation; newtypes of f32/f64 must be bit-identical to the scalar planner; double-double must reach double-double accuracy.",
   note="Constants reach a generic type only through from_f64/from_usize; an unknown new constant makes the exact layer 'undecided', never failing. The field type's zero is not the all-zero byte pattern (tag 0 is invalid), so values fabricated from raw memory are seen."),
 "C15": dict(engine="confspace", cat="model_checking", ref="§2.1 memory monitor, §3 C15",
   technique="bounded-exhaustive enumeration of call shapes with the input in a permanently read-only mapping (stores fault) and a bitwise snapshot comparison after return or unwind",
   text="For every configuration, n, chunk count 1..8 and the full shape product (including every shape ending in a panic), process_immutable_with_scratch receives its input through a read-only view of doubly-mapped memory; any store faults, and the bits are compared with a snapshot afterwards.",
   note="Trusted: kernel page protection; worker processes attribute faults to the executing case."),
}
NOT_YET = {}
NOT_APPLICABLE = {
 "C16": "decided by the Rust type checker over a witness crate; there is no execution, state or schedule to enumerate, so model checking has nothing to explore (DESIGN §3 C16)",
}
ALL = ["C%02d" % i for i in range(1, 17)]

def main():
    checks = []
    for pid in ALL:
        if pid in CHECKS:
            c = CHECKS[pid]
            checks.append({
                "property_id": pid,
                "quick_cmd": f"./check {pid} --tier quick",
                "thorough_cmd": f"./check {pid} --tier thorough",
                "evidence_file": f"evidence/{pid}.json",
                "replay_cmd_template": f"./check {pid} --replay {{path}}",
                "engine": c["engine"],
                "level_claimed": {"category": c["cat"], "text": c["text"], "design_ref": c["ref"]},
                "level_note": c["note"],
                "technique": c["technique"],
            })
    na = []
    for pid in ALL:
        if pid in NOT_APPLICABLE:
            na.append({"property_id": pid, "reason": NOT_APPLICABLE[pid]})
        elif pid not in CHECKS:
            na.append({"property_id": pid, "reason": NOT_YET.get(pid, "check not built yet in this round (planned in DESIGN.md §3); not claimed until it exists and is quiet on the unchanged tree")})
    m = {
        "version": 1,
        "setup_cmd": "./setup.sh",
        "hooks": {
            "guard": "rustfft_verif",
            "enable": "RUSTFLAGS=\"--cfg rustfft_verif\" cargo build (harness crate /verif/harness has a path dependency on /repo; done by ./check on every run)",
            "baseline_off_cmd": "cd /repo && (cargo nextest run --workspace --no-fail-fast --offline --test-threads 8 || cargo test --workspace --no-fail-fast --offline)",
            "source_commits": HOOK_COMMITS,
            "add_only": True,
        },
        "engines": [
            {"name": "confspace", "path": "harness/src/floatlayer.rs, harness/src/exact.rs, harness/src/checks/", "serves_properties": [p for p in CHECKS if CHECKS[p]["engine"] == "confspace"], "kind_free_text": A},
            {"name": "planfsm", "path": "harness/src/checks/c10.rs", "serves_properties": [p for p in CHECKS if CHECKS[p]["engine"] == "planfsm"], "kind_free_text": "explicit-state BFS over the real planner's reachable cache states (request histories), invariants on every transition"},
            {"name": "sched", "path": "harness/src/sched.rs", "serves_properties": [p for p in CHECKS if CHECKS[p]["engine"] == "sched"], "kind_free_text": "hand-rolled stateless schedule explorer (iterative preemption bounding) on one shared transform instance"},
        ],
        "checks": checks,
        "not_applicable": na,
        "notes": "Technique family: model checking (bounded-exhaustive exploration of the real code). See DESIGN.md. Exit codes >= 2 are machinery failures, never verdicts.",
    }
    with open(os.path.join(ROOT, "MANIFEST.json"), "w") as f:
        json.dump(m, f, indent=1)
        f.write("\n")

if __name__ == "__main__":
    main()
