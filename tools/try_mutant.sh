#!/bin/bash
# usage: tools/try_mutant.sh <patch.diff> <check id>...   -- applies the patch to /repo, runs the quick checks, reverts.
set -u
P="$(realpath "$1")"; shift
cd /repo || exit 2
if ! git diff --quiet; then echo "repo not clean"; exit 2; fi
git apply --whitespace=nowarn "$P" || patch -p1 --no-backup-if-mismatch -F3 < "$P" || { echo "patch does not apply"; git reset -q --hard HEAD; exit 2; }
for c in "$@"; do
  out=$(cd /verif && ./check "$c" --tier "${TIER:-quick}" 2>&1); rc=$?
  nv=$(echo "$out" | grep -c "^VIOLATION")
  echo "== $(basename "$P") $c exit=$rc violations_lines=$nv $(echo "$out" | grep -m1 'what:' )"
  [ "${VERBOSE:-0}" = 1 ] && echo "$out" | tail -15
done
git reset -q --hard HEAD; git status --short | head -3
