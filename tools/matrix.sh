#!/bin/bash
# Detection matrix without touching /repo: runs the checks of a scratch COPY of /verif against a scratch WORKTREE of
# /repo HEAD to which one seeded change / mutant at a time is applied.
#   tools/matrix.sh setup                      create /tmp/mx/{verif,repo} (copy of the working tree of /verif, worktree of /repo HEAD)
#   tools/matrix.sh sync                       refresh /tmp/mx/verif from /verif (keeps the build output)
#   tools/matrix.sh run <patch> <Cxx>...       apply <patch>, run the quick (TIER=thorough: thorough) checks, revert; one result line per check
#   tools/matrix.sh clean                      remove everything
# Results are appended to /tmp/mx/results.tsv:  patch  check  exit  violations  first-what
set -u
MX=/tmp/mx
cmd="${1:-}"; shift || true
sync_verif() {
  mkdir -p $MX/verif
  rsync -a --delete --exclude target --exclude .git --exclude replay --exclude evidence /verif/ $MX/verif/
  mkdir -p $MX/verif/evidence
  sed -i "s#path = \"/repo\"#path = \"$MX/repo\"#" $MX/verif/harness/Cargo.toml $MX/verif/probe/Cargo.toml
}
case "$cmd" in
  setup)
    mkdir -p $MX
    git -C /repo worktree remove --force $MX/repo 2>/dev/null
    git -C /repo worktree add -f --detach $MX/repo HEAD -q || exit 2
    sync_verif
    ;;
  sync) sync_verif;;
  run)
    P="$(realpath "$1")"; shift
    cd $MX/repo || exit 2
    git reset -q --hard HEAD
    if ! (git apply --whitespace=nowarn "$P" 2>/dev/null || patch -p1 -s --no-backup-if-mismatch -F3 < "$P"); then echo "$P: patch does not apply"; git reset -q --hard HEAD; exit 2; fi
    for c in "$@"; do
      out=$(cd $MX/verif && VERIF_REPO=$MX/repo ./check "$c" --tier "${TIER:-quick}" 2>&1); rc=$?
      nv=$(echo "$out" | grep -c "^VIOLATION")
      what=$(echo "$out" | grep -m1 'what:' | cut -c1-300)
      echo -e "$(basename "$(dirname "$P")")/$(basename "$P")\t$c\t$rc\t$nv\t$what" | tee -a $MX/results.tsv
      [ "${VERBOSE:-0}" = 1 ] && echo "$out" | tail -15
    done
    git reset -q --hard HEAD
    ;;
  clean)
    git -C /repo worktree remove --force $MX/repo 2>/dev/null
    rm -rf $MX
    ;;
  *) echo "usage: matrix.sh setup|sync|run <patch> <Cxx>...|clean"; exit 2;;
esac
