#!/bin/bash
# usage: tools/confirm_seeded.sh <outdir> <id/variant>...   (e.g. /tmp/seed_out C01/a C01/b)
# For each delivered change: in a scratch worktree of /repo HEAD, confirm (1) the repository's own suite passes with the
# change, (2) the demonstration fails with the change, (3) the demonstration passes without it. Writes confirm.json.
set -u
OUT="$1"; shift
WT=/tmp/wtv/wt
export CARGO_TARGET_DIR=/tmp/wtv/target CARGO_NET_OFFLINE=true
mkdir -p /tmp/wtv
git -C /repo worktree remove --force "$WT" 2>/dev/null
git -C /repo worktree add -f --detach "$WT" HEAD -q || exit 2
for v in "$@"; do
  d="$OUT/$v"; p="$d/patch.diff"; [ -f "$d/patch_head.diff" ] && p="$d/patch_head.diff"
  cd "$WT" && git reset -q --hard HEAD && git clean -fdq tests
  if ! (git apply --whitespace=nowarn "$p" 2>/dev/null || patch -p1 -s --no-backup-if-mismatch -F3 < "$p"); then echo "$v: patch does not apply"; continue; fi
  s1=fail; cargo test --offline >"$d/confirm_suite.log" 2>&1 && s1=pass
  cp "$d/demo.rs" tests/zz_demo.rs
  s2=pass; cargo test --offline --test zz_demo >"$d/confirm_demo_with.log" 2>&1 || s2=fail
  git checkout -q -- src
  s3=fail; cargo test --offline --test zz_demo >"$d/confirm_demo_without.log" 2>&1 && s3=pass
  rm -f tests/zz_demo.rs
  echo "{\"variant\": \"$v\", \"suite_with_change\": \"$s1\", \"demo_with_change\": \"$s2\", \"demo_without_change\": \"$s3\", \"confirmed\": $([ $s1 = pass ] && [ $s2 = fail ] && [ $s3 = pass ] && echo true || echo false)}" | tee "$d/confirm.json"
done
cd /; git -C /repo worktree remove --force "$WT"; rm -rf /tmp/wtv/target
